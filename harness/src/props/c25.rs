//! C25 — single-byte text encodings match the normative tables (exhaustive).
//!
//! Oracle: `reftab` (ISO 32000-1 Annex D transcribed as code → glyph name → Unicode through an
//! Adobe Glyph List subset; self-checked against a second transcription of StandardEncoding,
//! against `refpdf::textstring` for PDFDocEncoding and against Python's cp1252/mac_roman codecs).
//!
//! Library surfaces (everything public that implements one of the four encodings):
//!   TextEncoding::decode / encode / encode_strict          (all four encodings; encode_strict is the
//!                                                           only public way to `winansi_encode_char`
//!                                                           and `macroman_encode_char`, which are pub
//!                                                           items of a pub(crate) module)
//!   PdfString::to_text                                      (PDFDocEncoding text strings without BOM;
//!                                                           the only public way to `winansi_decode_char`)
//!   parser::encoding::decode_text_with_encoding             (lenient) and
//!   EnhancedDecoder::decode_with_encoding(.., lenient=false) for Windows1252 (= WinAnsi), MacRoman,
//!                                                           PdfDocEncoding
//!
//! Sub-checks (all exhaustive enumerations, no sampling in `decode-bytes`, `decode-pairs`,
//! `encode-scalars`):
//!   decode-bytes    all 256 bytes × every decode surface × encoding
//!   decode-pairs    all 65 536 byte pairs × the same (decoding a string = decoding its bytes)
//!   encode-scalars  all 1 112 064 Unicode scalars × {encode, encode_strict} × 4 encodings
//!   encode-pairs    all ordered pairs over (every character Annex D knows for the encoding ∪ a fixed
//!                   set of outsiders) × {encode, encode_strict} × 4 encodings
use crate::engine::{self, par_chunks, Ctx, Outcome, PropertyDef, Tier};
use crate::reftab::{self, table, CharClass, Enc};
use oxidize_pdf::parser::encoding::{decode_text_with_encoding, CharacterDecoder, EncodingType, EnhancedDecoder};
use oxidize_pdf::parser::objects::PdfString;
use oxidize_pdf::text::TextEncoding;
use serde::{Deserialize, Serialize};
use serde_json::{json, Value};
use std::collections::BTreeMap;
use std::sync::{Mutex, OnceLock};

pub fn def() -> PropertyDef {
    PropertyDef {
        id: "C25",
        level: "exploration",
        rule: "exhaustive enumeration, no sampling: sub `decode-bytes` = all 256 byte values × each public decoding surface (TextEncoding::decode for the 4 encodings, PdfString::to_text for PDFDoc, parser::encoding lenient and strict decoders for WinAnsi/MacRoman/PDFDoc); `decode-pairs` = all 65 536 byte pairs × the same surfaces; `encode-scalars` = all 1 112 064 Unicode scalar values × {TextEncoding::encode, TextEncoding::encode_strict} × 4 encodings; `encode-pairs` = all ordered pairs over the characters Annex D knows for the encoding plus a fixed set of unencodable characters (thorough: a larger set, plus `decode-triples` = all 16 777 216 byte triples on TextEncoding::decode and PdfString::to_text). A case is non-trivial when its input contains a byte ≥ 0x80 or a scalar ≥ U+0080; cases are distinct by construction (each enumerated once).",
        assumptions: &[
            "Annex D codes without a character (controls below 040, 177, the unused WinAnsi codes 0x81 0x8D 0x8F 0x90 0x9D, the 15 Mac OS Roman codes of Table 115, PDFDoc 0x7F 0x9F 0xAD and the C0 controls other than HT LF CR): any decoding is accepted; an encoder may map the same-valued control (or the Table 115 character) to such a code or refuse it",
            "footnote duplicates: WinAnsi 0xA0 / MacRoman 0xCA decode to U+0020 or U+00A0, WinAnsi 0xAD to U+002D or U+00AD; AGL 1.2 double mappings (mu, macron, periodcentered, fraction) accepted on decoding and optional on encoding",
            "EncodingType::Windows1252 of parser::encoding is judged as WinAnsiEncoding (identical on every code Annex D defines); EncodingType::Latin1 is not an Annex D encoding and is not judged",
            "the lossy encoder cannot report through its signature, so every character outside the repertoire that it turns into '?' (or other bytes) is reported under C25/unencodable-reported; the strict encoder must return Err(that character)",
            "pair sub-checks use the metamorphic relation f(xy) = f(x)f(y) relative to the library's own single-element results and only blame a pair when both elements pass the table clause on their own",
        ],
        trusted_base: &[
            "reftab: transcription of ISO 32000-1 Table D.2/D.3 + AGL subset (cross-checked at start-up against a code-order transcription of StandardEncoding, refpdf::textstring's PDFDoc table, and Python cp1252/mac_roman with the documented differences only)",
        ],
        run,
        replay,
    }
}

#[derive(Clone, Copy, Debug, PartialEq, Eq, PartialOrd, Ord, Hash, Serialize, Deserialize)]
pub enum Surface {
    /// TextEncoding::decode
    TeDecode,
    /// PdfString::to_text (PDFDoc only)
    ToText,
    /// parser::encoding::decode_text_with_encoding (lenient)
    EdLenient,
    /// EnhancedDecoder::decode_with_encoding(.., lenient = false)
    EdStrict,
    /// TextEncoding::encode (lossy)
    TeEncode,
    /// TextEncoding::encode_strict
    TeEncodeStrict,
}

impl Surface {
    fn name(self) -> &'static str {
        match self {
            Surface::TeDecode => "TextEncoding::decode",
            Surface::ToText => "PdfString::to_text",
            Surface::EdLenient => "decode_text_with_encoding",
            Surface::EdStrict => "EnhancedDecoder::strict",
            Surface::TeEncode => "TextEncoding::encode",
            Surface::TeEncodeStrict => "TextEncoding::encode_strict",
        }
    }
    /// name used in failure classes: the two parser::encoding entry points share one table
    fn class_name(self) -> &'static str {
        match self {
            Surface::EdLenient | Surface::EdStrict => "parser::encoding",
            _ => self.name(),
        }
    }
    fn is_decode(self) -> bool {
        matches!(self, Surface::TeDecode | Surface::ToText | Surface::EdLenient | Surface::EdStrict)
    }
}

fn decode_surfaces(enc: Enc) -> Vec<Surface> {
    let mut v = vec![Surface::TeDecode];
    if enc == Enc::PdfDoc {
        v.push(Surface::ToText);
    }
    if enc != Enc::Standard {
        v.push(Surface::EdLenient);
        v.push(Surface::EdStrict);
    }
    v
}

const ENCODE_SURFACES: [Surface; 2] = [Surface::TeEncode, Surface::TeEncodeStrict];

#[derive(Clone, Debug, PartialEq, Eq, PartialOrd, Ord, Serialize, Deserialize)]
pub struct Case {
    pub surface: Surface,
    pub enc: Enc,
    /// input of a decoding surface
    #[serde(default)]
    pub bytes: Vec<u8>,
    /// input of an encoding surface (Unicode scalar values)
    #[serde(default)]
    pub scalars: Vec<u32>,
}

// ---------------------------------------------------------------- library side

fn te(enc: Enc) -> TextEncoding {
    match enc {
        Enc::Standard => TextEncoding::StandardEncoding,
        Enc::MacRoman => TextEncoding::MacRomanEncoding,
        Enc::WinAnsi => TextEncoding::WinAnsiEncoding,
        Enc::PdfDoc => TextEncoding::PdfDocEncoding,
    }
}

fn et(enc: Enc) -> Option<EncodingType> {
    match enc {
        Enc::Standard => None,
        Enc::MacRoman => Some(EncodingType::MacRoman),
        Enc::WinAnsi => Some(EncodingType::Windows1252),
        Enc::PdfDoc => Some(EncodingType::PdfDocEncoding),
    }
}

fn shared_decoder() -> &'static EnhancedDecoder {
    static D: OnceLock<EnhancedDecoder> = OnceLock::new();
    D.get_or_init(EnhancedDecoder::new)
}

#[derive(Clone, Debug, PartialEq, Eq)]
enum Dec {
    Ok(String),
    Err(String),
    Panic(String, String),
    NotApplicable,
}

fn lib_decode(s: Surface, enc: Enc, bytes: &[u8]) -> Dec {
    let r = engine::catch(|| match s {
        Surface::TeDecode => Dec::Ok(te(enc).decode(bytes)),
        Surface::ToText if enc == Enc::PdfDoc => Dec::Ok(PdfString::new(bytes.to_vec()).to_text()),
        Surface::EdLenient => match et(enc) {
            Some(t) => match decode_text_with_encoding(bytes, t) {
                Ok(x) => Dec::Ok(x),
                Err(e) => Dec::Err(e.to_string()),
            },
            None => Dec::NotApplicable,
        },
        Surface::EdStrict => match et(enc) {
            Some(t) => match shared_decoder().decode_with_encoding(bytes, t, false) {
                Ok(x) => Dec::Ok(x),
                Err(e) => Dec::Err(e.to_string()),
            },
            None => Dec::NotApplicable,
        },
        _ => Dec::NotApplicable,
    });
    match r {
        Ok(d) => d,
        Err((m, l)) => Dec::Panic(engine::panic_class(&m, &l), format!("panic: {m} at {l}")),
    }
}

#[derive(Clone, Debug, PartialEq, Eq)]
enum EncR {
    Ok(Vec<u8>),
    Err(char),
    Panic(String, String),
    NotApplicable,
}

fn lib_encode(s: Surface, enc: Enc, text: &str) -> EncR {
    let r = engine::catch(|| match s {
        Surface::TeEncode => EncR::Ok(te(enc).encode(text)),
        Surface::TeEncodeStrict => match te(enc).encode_strict(text) {
            Ok(v) => EncR::Ok(v),
            Err(c) => EncR::Err(c),
        },
        _ => EncR::NotApplicable,
    });
    match r {
        Ok(d) => d,
        Err((m, l)) => EncR::Panic(engine::panic_class(&m, &l), format!("panic: {m} at {l}")),
    }
}

// ---------------------------------------------------------------- judgement

/// Key of a failure class (the part of the signature that is not case specific).
#[derive(Clone, Debug, PartialEq, Eq, PartialOrd, Ord)]
struct Fk {
    clause: &'static str,
    enc: Enc,
    api: Surface,
    region: &'static str,
    kind: String,
}

impl Fk {
    fn class(&self) -> String {
        if self.clause == "C25/no-panic" {
            return self.kind.clone();
        }
        format!("encoding={},api={},region={},kind={}", self.enc.name(), self.api.class_name(), self.region, self.kind)
    }
    fn signature(&self) -> String {
        format!("{}|{}", self.clause, self.class())
    }
}

/// Coarse region of a code, so that a failure in a healthy part of a table never hides behind a
/// known finding about a broken part.
fn region(enc: Enc, code: u8) -> &'static str {
    match code {
        0x20..=0x7E => "ascii",
        0x80..=0xAF if enc == Enc::MacRoman => "0x80-0xAF",
        0xB0..=0xFF if enc == Enc::MacRoman => "0xB0-0xFF",
        _ => "non-ascii",
    }
}

#[derive(Default)]
struct J {
    label: &'static str,
    fails: Vec<(Fk, String)>,
    excluded: Vec<&'static str>,
}

impl J {
    fn fail(&mut self, clause: &'static str, enc: Enc, api: Surface, region: &'static str, kind: &str, detail: impl FnOnce() -> String, want: bool) {
        self.fails.push((Fk { clause, enc, api, region, kind: kind.to_string() }, if want { detail() } else { String::new() }));
    }
}

fn one_char(s: &str) -> Option<char> {
    let mut it = s.chars();
    match (it.next(), it.next()) {
        (Some(c), None) => Some(c),
        _ => None,
    }
}

fn show_str(s: &str) -> String {
    s.chars().map(|c| format!("U+{:04X}", c as u32)).collect::<Vec<_>>().join(" ")
}

fn show_bytes(b: &[u8]) -> String {
    b.iter().map(|x| format!("0x{x:02X}")).collect::<Vec<_>>().join(" ")
}

/// Does decoding surface `s` pass the table clause on the single byte `b`? (None: undefined code)
fn decode1_passes(s: Surface, enc: Enc, b: u8) -> Option<bool> {
    let slot = table(enc).slot(b)?;
    Some(match lib_decode(s, enc, &[b]) {
        Dec::Ok(x) => one_char(&x).map(|c| slot.admits(c)).unwrap_or(false),
        _ => false,
    })
}

/// Which well-known wrong table does a wrong decoding come from? (part of the failure class, so
/// that a new kind of mistake never hides behind a listed one in the same region)
fn wrong_char_kind(enc: Enc, b: u8, got: &str) -> &'static str {
    let Some(c) = one_char(got) else {
        return "not-one-char";
    };
    if c == '\u{FFFD}' {
        "got-U+FFFD"
    } else if c as u32 == b as u32 {
        "got-latin1-identity"
    } else if enc != Enc::WinAnsi && table(Enc::WinAnsi).slot(b).map(|s| s.admits(c)).unwrap_or(false) {
        "got-winansi-value"
    } else if enc == Enc::MacRoman && b == 0xDB && c == '\u{20AC}' {
        "got-current-macosroman-value"
    } else {
        "got-other-char"
    }
}

fn out_bytes(o: &EncR) -> &[u8] {
    match o {
        EncR::Ok(v) => v,
        _ => &[],
    }
}

/// What did an encoder emit instead of the right answer?
fn wrong_bytes_kind(c: char, v: &[u8]) -> &'static str {
    let mut buf = [0u8; 4];
    if v.is_empty() {
        "dropped"
    } else if v.len() > 1 && v == c.encode_utf8(&mut buf).as_bytes() {
        "as-utf8-bytes"
    } else if v.len() == 1 && v[0] as u32 == c as u32 {
        "as-latin1-byte"
    } else {
        "as-other-bytes"
    }
}

fn judge_decode1(s: Surface, enc: Enc, b: u8, want: bool) -> J {
    let mut j = J::default();
    let t = table(enc);
    let out = lib_decode(s, enc, &[b]);
    if let Dec::Panic(class, d) = &out {
        j.fails.push((Fk { clause: "C25/no-panic", enc, api: s, region: "", kind: class.clone() }, d.clone()));
        return j;
    }
    if out == Dec::NotApplicable {
        j.label = "not-applicable";
        return j;
    }
    let Some(slot) = t.slot(b) else {
        j.label = "undefined-code(any value accepted)";
        return j;
    };
    let exp = || {
        let mut e = format!("{} U+{:04X}", slot.name, slot.primary as u32);
        for a in &slot.alts {
            e.push_str(&format!(" (or U+{:04X})", *a as u32));
        }
        e
    };
    let mut decoded: Option<char> = None;
    match &out {
        Dec::Ok(x) => match one_char(x) {
            Some(c) if slot.admits(c) => {
                decoded = Some(c);
                j.label = if c == slot.primary { "defined-code:table-value" } else { "defined-code:accepted-alternative" };
            }
            _ => {
                j.label = "defined-code:FAIL";
                j.fail("C25/decode-matches-table", enc, s, region(enc, b), wrong_char_kind(enc, b, x), || format!("byte 0x{b:02X}: Annex D says {}, library returned [{}]", exp(), show_str(x)), want);
            }
        },
        Dec::Err(e) => {
            j.label = "defined-code:FAIL";
            j.fail("C25/decode-matches-table", enc, s, region(enc, b), "defined-code-rejected", || format!("byte 0x{b:02X}: Annex D says {}, library returned Err({e})", exp()), want);
        }
        _ => {}
    }
    // inverse law on the repertoire: encode_strict(decode(b)) is a code of the same character
    if s == Surface::TeDecode {
        match decoded {
            Some(c) if c == slot.primary => match lib_encode(Surface::TeEncodeStrict, enc, &c.to_string()) {
                EncR::Ok(v) if v.len() == 1 && t.slot(v[0]).map(|x| x.name == slot.name).unwrap_or(false) => {}
                other => {
                    // implied by the encode table clause on c: only blame the law when that clause holds
                    let enc_ok = judge_encode1(Surface::TeEncodeStrict, enc, c, false).fails.is_empty();
                    if enc_ok {
                        j.fail("C25/inverse", enc, s, region(enc, b), "encode(decode(b))!=b", || format!("byte 0x{b:02X} decodes to U+{:04X}, which encode_strict turns into {other:?}", c as u32), want);
                    } else {
                        j.excluded.push("C25/inverse (encode side already fails the table clause)");
                    }
                }
            },
            Some(_) => {}
            None => j.excluded.push("C25/inverse (decode side already fails the table clause)"),
        }
    }
    j
}

fn judge_decode_seq(s: Surface, enc: Enc, bytes: &[u8], want: bool) -> J {
    let mut j = J::default();
    if s == Surface::ToText && bytes.len() >= 2 && bytes[0] == 0xFE && bytes[1] == 0xFF {
        j.label = "utf16-bom(not a PDFDoc string)";
        return j;
    }
    let out = lib_decode(s, enc, bytes);
    if let Dec::Panic(class, d) = &out {
        j.fails.push((Fk { clause: "C25/no-panic", enc, api: s, region: "", kind: class.clone() }, d.clone()));
        return j;
    }
    if out == Dec::NotApplicable {
        j.label = "not-applicable";
        return j;
    }
    // expected: concatenation of the single-byte results
    let mut exp = String::new();
    let mut exp_err = false;
    for b in bytes {
        match lib_decode(s, enc, &[*b]) {
            Dec::Ok(x) => exp.push_str(&x),
            _ => exp_err = true,
        }
    }
    let agrees = match &out {
        Dec::Ok(x) => !exp_err && *x == exp,
        Dec::Err(_) => exp_err,
        _ => true,
    };
    if agrees {
        j.label = "string:concatenation";
        return j;
    }
    let all_pass = bytes.iter().all(|b| decode1_passes(s, enc, *b) == Some(true));
    if all_pass {
        j.label = "string:FAIL";
        j.fail("C25/decode-string-is-concatenation", enc, s, "strings", "context-dependent", || format!("bytes [{}]: single bytes decode to [{}] (err={exp_err}), the string decodes to {out:?}", show_bytes(bytes), show_str(&exp)), want);
    } else {
        j.label = "string:differs-behind-table-failure-or-undefined-code";
        j.excluded.push("C25/decode-string-is-concatenation (an element is undefined or already fails the table clause)");
    }
    j
}

fn judge_encode1(s: Surface, enc: Enc, c: char, want: bool) -> J {
    let mut j = J::default();
    let t = table(enc);
    let mut buf = [0u8; 4];
    let text: &str = c.encode_utf8(&mut buf);
    let out = lib_encode(s, enc, text);
    if let EncR::Panic(class, d) = &out {
        j.fails.push((Fk { clause: "C25/no-panic", enc, api: s, region: "", kind: class.clone() }, d.clone()));
        return j;
    }
    if out == EncR::NotApplicable {
        j.label = "not-applicable";
        return j;
    }
    let show = |o: &EncR| match o {
        EncR::Ok(v) => format!("bytes [{}]", show_bytes(v)),
        EncR::Err(e) => format!("Err(U+{:04X})", *e as u32),
        _ => String::new(),
    };
    match t.classify(c) {
        CharClass::Repertoire(codes) => {
            let r = region(enc, codes[0]);
            let name = t.slot(codes[0]).map(|x| x.name).unwrap_or("");
            let mut ok = false;
            match &out {
                EncR::Ok(v) if v.len() == 1 && codes.contains(&v[0]) => {
                    ok = true;
                    j.label = "repertoire:table-code";
                }
                EncR::Ok(v) if v.as_slice() == b"?" => {
                    j.label = "repertoire:FAIL";
                    j.fail("C25/encode-matches-table", enc, s, r, "repertoire-char-becomes-?", || format!("U+{:04X} ({name}) is code 0x{:02X} in Annex D, library returned '?' (0x3F)", c as u32, codes[0]), want);
                }
                EncR::Ok(_) => {
                    j.label = "repertoire:FAIL";
                    j.fail("C25/encode-matches-table", enc, s, r, &format!("repertoire-char-{}", wrong_bytes_kind(c, out_bytes(&out))), || format!("U+{:04X} ({name}) is code 0x{:02X} in Annex D, library returned {}", c as u32, codes[0], show(&out)), want);
                }
                EncR::Err(_) => {
                    j.label = "repertoire:FAIL";
                    j.fail("C25/encode-matches-table", enc, s, r, "repertoire-char-rejected", || format!("U+{:04X} ({name}) is code 0x{:02X} in Annex D, library returned {}", c as u32, codes[0], show(&out)), want);
                }
                _ => {}
            }
            // inverse law on the repertoire: decode(encode(c)) == c
            if let EncR::Ok(v) = &out {
                if ok {
                    match lib_decode(Surface::TeDecode, enc, v) {
                        Dec::Ok(x) if one_char(&x) == Some(c) => {}
                        other => {
                            if decode1_passes(Surface::TeDecode, enc, v[0]) == Some(true) {
                                j.fail("C25/inverse", enc, s, r, "decode(encode(c))!=c", || format!("U+{:04X} encodes to 0x{:02X}, which TextEncoding::decode turns into {other:?}", c as u32, v[0]), want);
                            } else {
                                j.excluded.push("C25/inverse (decode side already fails the table clause)");
                            }
                        }
                    }
                } else {
                    j.excluded.push("C25/inverse (encode side already fails the table clause)");
                }
            }
        }
        class => {
            let optional: &[u8] = match class {
                CharClass::Optional(v) => v,
                _ => &[],
            };
            let what = if optional.is_empty() { "outside" } else { "optional" };
            // the C0 controls are a population of their own (every encoder passes them through)
            let oreg = if (c as u32) < 0x20 { "C0-controls" } else { "outside-repertoire" };
            match &out {
                EncR::Err(e) if *e == c => j.label = if optional.is_empty() { "outside:refused" } else { "optional:refused" },
                EncR::Err(e) => {
                    j.label = "outside:FAIL";
                    j.fail("C25/unencodable-reported", enc, s, oreg, "wrong-error-char", || format!("U+{:04X} ({what}): strict encoder reported U+{:04X} instead", c as u32, *e as u32), want);
                }
                EncR::Ok(v) if v.len() == 1 && optional.contains(&v[0]) => j.label = "optional:accepted-code",
                EncR::Ok(v) if v.as_slice() == b"?" => {
                    j.label = "outside:FAIL";
                    j.fail("C25/unencodable-reported", enc, s, oreg, "silently-substituted-by-?", || format!("U+{:04X} is not in {}Encoding ({what}); the encoder returned '?' (0x3F, the code of `question`) with no error", c as u32, enc.name()), want);
                }
                EncR::Ok(v) => {
                    j.label = "outside:FAIL";
                    let kind = format!("silently-{}", wrong_bytes_kind(c, v));
                    j.fail("C25/unencodable-reported", enc, s, oreg, &kind, || {
                        let names: Vec<String> = v.iter().map(|b| t.slot(*b).map(|x| x.name.to_string()).unwrap_or_else(|| "undefined".into())).collect();
                        format!("U+{:04X} is not in {}Encoding ({what}); the encoder returned {} = Annex D [{}] with no error", c as u32, enc.name(), show(&out), names.join(", "))
                    }, want);
                }
                _ => {}
            }
        }
    }
    j
}

fn judge_encode_seq(s: Surface, enc: Enc, chars: &[char], want: bool) -> J {
    let mut j = J::default();
    let text: String = chars.iter().collect();
    let out = lib_encode(s, enc, &text);
    if let EncR::Panic(class, d) = &out {
        j.fails.push((Fk { clause: "C25/no-panic", enc, api: s, region: "", kind: class.clone() }, d.clone()));
        return j;
    }
    if out == EncR::NotApplicable {
        j.label = "not-applicable";
        return j;
    }
    let mut exp: Result<Vec<u8>, char> = Ok(Vec::new());
    for c in chars {
        let mut buf = [0u8; 4];
        match lib_encode(s, enc, c.encode_utf8(&mut buf)) {
            EncR::Ok(v) => {
                if let Ok(e) = exp.as_mut() {
                    e.extend_from_slice(&v)
                }
            }
            EncR::Err(e) => {
                if exp.is_ok() {
                    exp = Err(e)
                }
            }
            _ => {}
        }
    }
    let got: Result<Vec<u8>, char> = match out {
        EncR::Ok(v) => Ok(v),
        EncR::Err(e) => Err(e),
        _ => return j,
    };
    if got == exp {
        j.label = match &got {
            Ok(_) => "string:concatenation",
            Err(_) => "string:first-unencodable-char-reported",
        };
    } else {
        j.label = "string:FAIL";
        j.fail("C25/encode-string-is-concatenation", enc, s, "strings", "context-dependent", || format!("text [{}]: per character the encoder gives {exp:?}, for the string {got:?}", show_str(&text)), want);
    }
    j
}

fn judge(c: &Case, want: bool) -> J {
    if c.surface.is_decode() {
        match c.bytes.len() {
            0 => J::default(),
            1 => judge_decode1(c.surface, c.enc, c.bytes[0], want),
            _ => judge_decode_seq(c.surface, c.enc, &c.bytes, want),
        }
    } else {
        let chars: Option<Vec<char>> = c.scalars.iter().map(|u| char::from_u32(*u)).collect();
        match chars {
            None => J::default(),
            Some(v) if v.is_empty() => J::default(),
            Some(v) if v.len() == 1 => judge_encode1(c.surface, c.enc, v[0], want),
            Some(v) => judge_encode_seq(c.surface, c.enc, &v, want),
        }
    }
}

fn nontrivial(c: &Case) -> bool {
    c.bytes.iter().any(|b| *b >= 0x80) || c.scalars.iter().any(|u| *u >= 0x80)
}

pub fn check(c: &Case) -> Outcome {
    let mut o = Outcome::new();
    let j = judge(c, true);
    o.nontrivial(nontrivial(c));
    if !j.label.is_empty() {
        o.label(format!("{}/{}: {}", c.enc.name(), c.surface.name(), j.label));
    }
    for e in j.excluded {
        o.excluded(e);
    }
    for (k, d) in j.fails {
        o.fail(k.clause, k.class(), d);
    }
    o
}

// ---------------------------------------------------------------- enumeration

#[derive(Default)]
struct Agg {
    evals: u64,
    nt: u64,
    labels: BTreeMap<(Enc, Surface, &'static str), u64>,
    excluded: BTreeMap<&'static str, u64>,
    fails: BTreeMap<Fk, (u64, Vec<Case>)>,
}

/// examples kept per failing class: the table clauses fail on at most a few hundred elements, all of
/// which go into the evidence; the unencodable clause fails on ~1.1 M scalars, of which 3 are kept
fn keep(k: &Fk) -> usize {
    if k.clause.ends_with("-matches-table") {
        300
    } else {
        3
    }
}

impl Agg {
    fn add(&mut self, c: &Case, j: J) {
        self.evals += 1;
        if nontrivial(c) {
            self.nt += 1;
        }
        *self.labels.entry((c.enc, c.surface, j.label)).or_insert(0) += 1;
        for e in j.excluded {
            *self.excluded.entry(e).or_insert(0) += 1;
        }
        for (k, _) in j.fails {
            let kp = keep(&k);
            let e = self.fails.entry(k).or_insert((0, Vec::new()));
            e.0 += 1;
            if e.1.len() < kp {
                e.1.push(c.clone());
            }
        }
    }
    fn merge(&mut self, o: Agg) {
        self.evals += o.evals;
        self.nt += o.nt;
        for (k, v) in o.labels {
            *self.labels.entry(k).or_insert(0) += v;
        }
        for (k, v) in o.excluded {
            *self.excluded.entry(k).or_insert(0) += v;
        }
        for (k, (n, ex)) in o.fails {
            let kp = keep(&k);
            let e = self.fails.entry(k).or_insert((0, Vec::new()));
            e.0 += n;
            e.1.extend(ex);
            e.1.sort_by(|a, b| (a.bytes.len() + a.scalars.len(), &a.bytes, &a.scalars).cmp(&(b.bytes.len() + b.scalars.len(), &b.bytes, &b.scalars)));
            e.1.truncate(kp);
        }
    }
}

/// Enumerate `n` items in parallel; `f(i, &mut Agg)` evaluates item i on every surface.
fn enumerate(n: usize, f: impl Fn(usize, &mut Agg) + Sync) -> Agg {
    let total = Mutex::new(Agg::default());
    par_chunks(n, |lo, hi| {
        let mut a = Agg::default();
        for i in lo..hi {
            f(i, &mut a);
        }
        total.lock().unwrap().merge(a);
    });
    total.into_inner().unwrap()
}

/// Report an enumeration through the engine: bulk counters, histogram, one record per example of
/// each failing class, one VIOLATION per unknown signature (smallest example).
fn report(ctx: &Ctx, sub: &str, agg: Agg, sample: Case, hist: &mut BTreeMap<String, u64>, by_sig: &mut BTreeMap<String, Value>) {
    let mut recorded = 0u64;
    let mut recorded_nt = 0u64;
    let mut seen = std::collections::BTreeSet::new();
    for (k, (n, examples)) in &agg.fails {
        by_sig.insert(
            format!("{sub}: {}", k.signature()),
            json!({
                "failing_cases": n,
                "smallest": examples.first().map(|c| serde_json::to_value(c).unwrap()),
                "failing_inputs": if k.clause.ends_with("-matches-table") {
                    json!(examples.iter().map(|c| if c.surface.is_decode() { show_bytes(&c.bytes) } else { c.scalars.iter().map(|u| format!("U+{u:04X}")).collect::<Vec<_>>().join(" ") }).collect::<Vec<_>>().join(", "))
                } else {
                    Value::Null
                },
            }),
        );
        for c in examples.iter().take(3) {
            let o = check(c);
            let key = engine::hash64(serde_json::to_vec(c).unwrap().as_slice());
            recorded += 1;
            if o.nontrivial {
                recorded_nt += 1;
            }
            let unknown = ctx.record(sub, key, &o, || serde_json::to_value(c).unwrap());
            for fl in unknown {
                if seen.insert(fl.signature()) {
                    ctx.violation(sub, &fl, serde_json::to_value(c).unwrap(), &o.fails);
                }
            }
        }
    }
    ctx.bulk(sub, agg.evals.saturating_sub(recorded), agg.nt.saturating_sub(recorded_nt), serde_json::to_value(&sample).unwrap());
    for ((e, s, l), n) in &agg.labels {
        if !l.is_empty() {
            *hist.entry(format!("{sub}: {}/{}: {}", e.name(), s.name(), l)).or_insert(0) += n;
        }
    }
    for (e, n) in &agg.excluded {
        *hist.entry(format!("{sub}: excluded: {e}")).or_insert(0) += n;
    }
}

/// Characters used by `encode-pairs`: everything Annex D knows for the encoding + outsiders.
fn pair_alphabet(enc: Enc, tier: Tier) -> Vec<char> {
    let mut v: Vec<char> = table(enc).known_chars().map(|(c, _)| c).collect();
    let outsiders: [u32; 24] = [
        0x0080, 0x0085, 0x009F, 0x0100, 0x0141, 0x0394, 0x03A9, 0x0416, 0x05D0, 0x2010, 0x2032, 0x20AC, 0x2126, 0x2190, 0x2260, 0x3042, 0x4E2D, 0xD7FF, 0xE000, 0xFB03, 0xFFFD,
        0x10000, 0x1F600, 0x10FFFF,
    ];
    for u in outsiders {
        v.push(char::from_u32(u).unwrap());
    }
    if tier == Tier::Thorough {
        // every 557th scalar: ~2000 further characters
        let mut u = 0x101u32;
        while u < 0x110000 {
            if let Some(c) = char::from_u32(u) {
                v.push(c);
            }
            u += 557;
        }
    }
    v.sort();
    v.dedup();
    v
}

fn run(ctx: &Ctx) {
    // calibration of the oracle (exit 2 = harness broken, never a VIOLATION)
    match reftab::self_check() {
        Ok(notes) => ctx.extra("reftab_self_check", json!(notes)),
        Err(e) => {
            eprintln!("[C25] reftab self-check failed: {e}");
            std::process::exit(2);
        }
    }
    match reftab::calibrate_python() {
        Ok(Some(s)) => ctx.extra("reftab_python_calibration", json!(s)),
        Ok(None) => ctx.note("python3 not available: calibration of WinAnsi/MacRoman tables against cp1252/mac_roman skipped"),
        Err(e) => {
            eprintln!("[C25] reftab calibration against Python codecs failed: {e}");
            std::process::exit(2);
        }
    }
    let mut hist: BTreeMap<String, u64> = BTreeMap::new();
    let mut by_sig: BTreeMap<String, Value> = BTreeMap::new();

    // decode-bytes
    let agg = enumerate(256, |i, a| {
        for enc in reftab::ALL {
            for s in decode_surfaces(enc) {
                let c = Case { surface: s, enc, bytes: vec![i as u8], scalars: vec![] };
                let j = judge(&c, false);
                a.add(&c, j);
            }
        }
    });
    report(ctx, "decode-bytes", agg, Case { surface: Surface::TeDecode, enc: Enc::WinAnsi, bytes: vec![0x80], scalars: vec![] }, &mut hist, &mut by_sig);

    // decode-pairs
    let agg = enumerate(65536, |i, a| {
        for enc in reftab::ALL {
            for s in decode_surfaces(enc) {
                let c = Case { surface: s, enc, bytes: vec![(i >> 8) as u8, i as u8], scalars: vec![] };
                let j = judge(&c, false);
                a.add(&c, j);
            }
        }
    });
    report(ctx, "decode-pairs", agg, Case { surface: Surface::ToText, enc: Enc::PdfDoc, bytes: vec![0x41, 0xE9], scalars: vec![] }, &mut hist, &mut by_sig);

    // decode-triples (thorough only): all 16 777 216 byte triples on the table-driven decoders
    if ctx.tier == Tier::Thorough {
        let agg = enumerate(1 << 24, |i, a| {
            for enc in reftab::ALL {
                for s in decode_surfaces(enc) {
                    if matches!(s, Surface::EdLenient | Surface::EdStrict) {
                        continue; // rebuilds its tables per call; pairs cover it
                    }
                    let c = Case { surface: s, enc, bytes: vec![(i >> 16) as u8, (i >> 8) as u8, i as u8], scalars: vec![] };
                    let j = judge(&c, false);
                    a.add(&c, j);
                }
            }
        });
        report(ctx, "decode-triples", agg, Case { surface: Surface::TeDecode, enc: Enc::MacRoman, bytes: vec![0x41, 0xDB, 0xE9], scalars: vec![] }, &mut hist, &mut by_sig);
    }

    // encode-scalars
    let agg = enumerate(0x110000, |i, a| {
        if char::from_u32(i as u32).is_none() {
            return;
        }
        for enc in reftab::ALL {
            for s in ENCODE_SURFACES {
                let c = Case { surface: s, enc, bytes: vec![], scalars: vec![i as u32] };
                let j = judge(&c, false);
                a.add(&c, j);
            }
        }
    });
    ctx.extra("scalars_enumerated_per_encoding_and_api", json!(agg.evals / 8));
    report(ctx, "encode-scalars", agg, Case { surface: Surface::TeEncodeStrict, enc: Enc::WinAnsi, bytes: vec![], scalars: vec![0x20AC] }, &mut hist, &mut by_sig);

    // encode-pairs
    for enc in reftab::ALL {
        let alpha = pair_alphabet(enc, ctx.tier);
        let n = alpha.len();
        let agg = enumerate(n * n, |i, a| {
            for s in ENCODE_SURFACES {
                let c = Case { surface: s, enc, bytes: vec![], scalars: vec![alpha[i / n] as u32, alpha[i % n] as u32] };
                let j = judge(&c, false);
                a.add(&c, j);
            }
        });
        report(ctx, "encode-pairs", agg, Case { surface: Surface::TeEncodeStrict, enc, bytes: vec![], scalars: vec![0x41, 0x20AC] }, &mut hist, &mut by_sig);
    }

    ctx.extra("label_histogram", json!(hist));
    ctx.extra("failures_by_signature", json!(by_sig));
    ctx.set_exhaustive(true);
}

fn replay(ctx: &Ctx, sub: &str, case: &Value) -> Result<Outcome, String> {
    match sub.trim_start_matches("replay:") {
        "decode-bytes" | "decode-pairs" | "decode-triples" | "encode-scalars" | "encode-pairs" => ctx.replay_case::<Case, _>(case, check),
        s => Err(format!("unknown sub-check {s}")),
    }
}
