//! Helpers shared by property modules.
use oxidize_pdf::parser::objects::{PdfDictionary, PdfObject};
use oxidize_pdf::parser::ParseOptions;

/// Canonical text form of a library object: dictionary keys sorted (the library's dictionaries are
/// HashMap-backed), streams as canonical dict + decoded data (raw data when it does not decode).
pub fn canon_lib(o: &PdfObject) -> String {
    let mut s = String::new();
    canon_into(o, &mut s);
    s
}

fn bytes_repr(b: &[u8], out: &mut String) {
    for &c in b {
        if (0x20..0x7f).contains(&c) && c != b'\\' {
            out.push(c as char);
        } else {
            out.push_str(&format!("\\x{c:02x}"));
        }
    }
}

pub fn canon_dict_into(d: &PdfDictionary, out: &mut String) {
    let mut keys: Vec<_> = d.0.keys().collect();
    keys.sort_by(|a, b| a.0.cmp(&b.0));
    out.push_str("<<");
    for k in keys {
        out.push('/');
        out.push_str(&k.0);
        out.push(' ');
        canon_into(&d.0[k], out);
        out.push(' ');
    }
    out.push_str(">>");
}

fn canon_into(o: &PdfObject, out: &mut String) {
    match o {
        PdfObject::Null => out.push_str("null"),
        PdfObject::Boolean(b) => out.push_str(if *b { "true" } else { "false" }),
        PdfObject::Integer(i) => out.push_str(&i.to_string()),
        PdfObject::Real(r) => out.push_str(&format!("{:.4}", r)),
        PdfObject::String(s) => {
            out.push('(');
            bytes_repr(s.as_bytes(), out);
            out.push(')');
        }
        PdfObject::Name(n) => {
            out.push('/');
            out.push_str(&n.0);
        }
        PdfObject::Array(a) => {
            out.push('[');
            for x in a.0.iter() {
                canon_into(x, out);
                out.push(' ');
            }
            out.push(']');
        }
        PdfObject::Dictionary(d) => canon_dict_into(d, out),
        PdfObject::Stream(s) => {
            canon_dict_into(&s.dict, out);
            out.push_str("stream[");
            match s.decode(&ParseOptions::default()) {
                Ok(d) => bytes_repr(&d, out),
                Err(_) => {
                    out.push_str("raw:");
                    bytes_repr(s.raw_data(), out)
                }
            }
            out.push(']');
        }
        PdfObject::Reference(n, g) => out.push_str(&format!("{n} {g} R")),
    }
}

pub fn presets() -> Vec<(&'static str, ParseOptions)> {
    vec![("strict", ParseOptions::strict()), ("default", ParseOptions::default()), ("tolerant", ParseOptions::tolerant()), ("skip_errors", ParseOptions::skip_errors())]
}
