//! Helpers shared by property modules.
use oxidize_pdf::parser::objects::{PdfDictionary, PdfObject};
use oxidize_pdf::parser::ParseOptions;

/// Canonical text form of a library object: dictionary keys sorted (the library's dictionaries are
/// HashMap-backed), streams as canonical dict + decoded data (raw data when it does not decode).
pub fn canon_lib(o: &PdfObject) -> String {
    let mut s = String::new();
    canon_into(o, &mut s);
    s
}

fn bytes_repr(b: &[u8], out: &mut String) {
    for &c in b {
        if (0x20..0x7f).contains(&c) && c != b'\\' {
            out.push(c as char);
        } else {
            out.push_str(&format!("\\x{c:02x}"));
        }
    }
}

pub fn canon_dict_into(d: &PdfDictionary, out: &mut String) {
    let mut keys: Vec<_> = d.0.keys().collect();
    keys.sort_by(|a, b| a.0.cmp(&b.0));
    out.push_str("<<");
    for k in keys {
        out.push('/');
        out.push_str(&k.0);
        out.push(' ');
        canon_into(&d.0[k], out);
        out.push(' ');
    }
    out.push_str(">>");
}

fn canon_into(o: &PdfObject, out: &mut String) {
    match o {
        PdfObject::Null => out.push_str("null"),
        PdfObject::Boolean(b) => out.push_str(if *b { "true" } else { "false" }),
        PdfObject::Integer(i) => out.push_str(&i.to_string()),
        PdfObject::Real(r) => out.push_str(&format!("{:.4}", r)),
        PdfObject::String(s) => {
            out.push('(');
            bytes_repr(s.as_bytes(), out);
            out.push(')');
        }
        PdfObject::Name(n) => {
            out.push('/');
            out.push_str(&n.0);
        }
        PdfObject::Array(a) => {
            out.push('[');
            for x in a.0.iter() {
                canon_into(x, out);
                out.push(' ');
            }
            out.push(']');
        }
        PdfObject::Dictionary(d) => canon_dict_into(d, out),
        PdfObject::Stream(s) => {
            canon_dict_into(&s.dict, out);
            out.push_str("stream[");
            match s.decode(&ParseOptions::default()) {
                Ok(d) => bytes_repr(&d, out),
                Err(_) => {
                    out.push_str("raw:");
                    bytes_repr(s.raw_data(), out)
                }
            }
            out.push(']');
        }
        PdfObject::Reference(n, g) => out.push_str(&format!("{n} {g} R")),
    }
}

/// Canonical text form of a reference-model object, in the same format as `canon_lib`
/// (`stream_data` = decoded data to print for streams).
pub fn canon_ref(o: &crate::refpdf::Obj, decoded: Option<&[u8]>) -> String {
    use crate::refpdf::Obj;
    fn dict_into(d: &crate::refpdf::Dict, out: &mut String) {
        let mut keys: Vec<&(Vec<u8>, Obj)> = d.0.iter().collect();
        keys.sort_by(|a, b| String::from_utf8_lossy(&a.0).cmp(&String::from_utf8_lossy(&b.0)));
        out.push_str("<<");
        for (k, v) in keys {
            out.push('/');
            out.push_str(&String::from_utf8_lossy(k));
            out.push(' ');
            into(v, None, out);
            out.push(' ');
        }
        out.push_str(">>");
    }
    fn into(o: &Obj, decoded: Option<&[u8]>, out: &mut String) {
        match o {
            Obj::Null => out.push_str("null"),
            Obj::Bool(b) => out.push_str(if *b { "true" } else { "false" }),
            Obj::Int(i) => out.push_str(&i.to_string()),
            Obj::Real(r) => out.push_str(&format!("{:.4}", r)),
            Obj::Str(s) => {
                out.push('(');
                bytes_repr(s, out);
                out.push(')');
            }
            Obj::Name(n) => {
                out.push('/');
                out.push_str(&String::from_utf8_lossy(n));
            }
            Obj::Arr(a) => {
                out.push('[');
                for x in a {
                    into(x, None, out);
                    out.push(' ');
                }
                out.push(']');
            }
            Obj::Dict(d) => dict_into(d, out),
            Obj::Stream(s) => {
                dict_into(&s.dict, out);
                out.push_str("stream[");
                bytes_repr(decoded.unwrap_or(&s.data), out);
                out.push(']');
            }
            Obj::Ref(n, g) => out.push_str(&format!("{n} {g} R")),
        }
    }
    let mut s = String::new();
    into(o, decoded, &mut s);
    s
}

/// Remove every `/Length <int> ` entry from a canonical string (stored length ≠ decoded length).
pub fn strip_length(v: &str) -> String {
    let mut v = v.to_string();
    let mut from = 0;
    while let Some(rel) = v[from..].find("/Length ") {
        let a = from + rel;
        let rest = &v[a + 8..];
        let n = rest.bytes().take_while(|c| c.is_ascii_digit()).count();
        if n == 0 {
            from = a + 8;
            continue;
        }
        let end = a + 8 + n + if rest[n..].starts_with(' ') { 1 } else { 0 };
        v.replace_range(a..end, "");
        from = a;
    }
    v
}

pub fn presets() -> Vec<(&'static str, ParseOptions)> {
    vec![("strict", ParseOptions::strict()), ("default", ParseOptions::default()), ("tolerant", ParseOptions::tolerant()), ("skip_errors", ParseOptions::skip_errors())]
}
