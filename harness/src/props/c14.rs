//! C14 — RAG chunking is a faithful, budget-respecting partition.
//!
//! Generated element sequences are chunked through both public entry points
//! (`HybridChunker::chunk`, `HybridChunker::chunk_with_graph` + `ElementGraph::build`) and the
//! output is judged by invariants that are computed from the *generated specification* of the
//! sequence only (every word of every element is a unique marker `m<idx>x<j>`), never from a second
//! run of library code: conservation, order, split-concatenation, budget under the injected
//! counter, token_estimate, heading context, determinism, and the RagChunk view per context mode.
use crate::engine::{pick_idx, trunc, Ctx, Outcome, PropertyDef};
use oxidize_pdf::pipeline::{
    ContextFormat, ContextMode, Element, ElementBBox, ElementData, ElementGraph, ElementMetadata, HybridChunk, HybridChunkConfig, HybridChunker,
    ImageElementData, KeyValueElementData, MergePolicy, RagChunk, TableElementData, TokenCounter, WordProxyCounter,
};
use proptest::prelude::*;
use serde::{Deserialize, Serialize};
use serde_json::Value;
use std::collections::{BTreeMap, BTreeSet};
use std::sync::Arc;

pub const SIG_ORPHAN: &str = "C14/conservation|entry=graph,orphan-after-first-title";
pub const SIG_ORDER: &str = "C14/order|entry=graph,child-after-later-title";
pub const SIG_SUM: &str = "C14/budget|entry=graph,counter=non-additive,shape=title+children";

pub fn def() -> PropertyDef {
    PropertyDef {
        id: "C14",
        level: "exploration",
        rule: "case = (sequence of 0–24 elements over all 9 Element variants, each 0–120 words that are unique markers m<idx>x<j> with generated sentence boundaries / newlines / stray whitespace / word lengths, empty texts, empty tables, images without alt text; parent_heading per element nearest / absent / any title of the sequence (stale or future) / a text no title has; title texts from a 3-entry pool (duplicates) or unique; max_tokens 1–96, overlap_tokens, merge_adjacent, merge_policy, propagate_headings, context_mode None/Heading/Contextual(Labeled|Prose), token counter WordProxyCounter or one of four harness counters implementing the public TokenCounter trait: additive per-word weights, non-additive ceil(chars/4), non-additive words+newlines, non-additive words+3 per newline). Every case is run through chunk() and chunk_with_graph(ElementGraph::build()). 40 % of the cases take max_tokens = summed cost of 1–4 consecutive elements -1…+2 (decisions at the boundary). Once the section-graph findings are listed, ~10 % of the cases keep orphan / stale headings after the first title, the rest use the partitioner's nearest-title headings there. Non-trivial: (>= 1 title and >= 1 element whose own cost exceeds max_tokens) or a non-additive counter; distinct by hash of the case.",
        assumptions: &[
            "identity of an output element = index in its first marker word, else its metadata.page (set to the input index); fragments of a split element are compared to the element after whitespace normalisation (whitespace-separated word sequences equal) — the splitter trims, the stated reading of 'concatenate back'",
            "budget clause is one-directional as the property states: !is_oversized => counter.count(chunk.text()) <= max_tokens with the injected counter; token_estimate == counter.count(chunk.text()) is taken from the doc comment of HybridChunk::token_estimate",
            "heading clause accepts every documented source: chunk(): the parent_heading of any element of the chunk (None also accepted when propagate_headings=false); chunk_with_graph(): for elements governed by a section (nearest preceding Title whose text equals parent_heading, per ElementGraph docs) the section title's text or that title's own parent_heading; preamble elements as for chunk()",
            "counters declared additive are additive over any whitespace join (harness counter 1 sums per-word weights); declaring non-additive is always allowed by the trait's contract",
            "SemanticChunker (documented overlap) is not one of the two chunkers the property names and is not exercised",
        ],
        trusted_base: &["harness text builder + invariant oracle in props/c14.rs (no reference implementation of the chunker is needed)", "three harness TokenCounter implementations (<= 10 lines each)"],
        run,
        replay,
    }
}

// ───────────────────────────── case ─────────────────────────────

#[derive(Clone, Debug, Serialize, Deserialize, PartialEq)]
pub enum Head {
    /// text of the nearest preceding title (a title: its own text) — what the partitioner produces
    Nearest,
    Absent,
    /// text of title number pick_idx(k, #titles) of the sequence (may be stale or a later title)
    Pick(u16),
    /// a heading text that no title carries
    Ghost,
}

#[derive(Clone, Debug, Serialize, Deserialize)]
pub struct El {
    /// 0 Title 1 Paragraph 2 Table 3 Header 4 Footer 5 ListItem 6 Image 7 CodeBlock 8 KeyValue
    pub kind: u8,
    pub words: u16,
    /// words per sentence, 0 = no sentence boundary
    pub sent: u8,
    /// word length variation (0–6); for titles pad < 3 selects a pooled (duplicable) title text
    pub pad: u8,
    /// whitespace style: 0 single spaces, 1 newline after some sentences, 2 double spaces + leading/trailing blank, 3 " \n " after sentences
    pub ws: u8,
    pub head: Head,
}

#[derive(Clone, Debug, Serialize, Deserialize)]
pub struct Case {
    pub els: Vec<El>,
    pub max_tokens: u16,
    pub overlap: u16,
    pub merge_adjacent: bool,
    /// 0 SameTypeOnly, 1 AnyInlineContent
    pub policy: u8,
    pub propagate: bool,
    /// 0 None, 1 Heading, 2 Contextual(Labeled), 3 Contextual(Prose)
    pub ctx_mode: u8,
    /// 0 WordProxyCounter, 1 harness weighted words (additive), 2 harness ceil(chars/4), 3 harness words+newlines
    pub counter: u8,
}

const POOL: [&str; 3] = ["Overview", "Methods and Materials", "Results"];
const GHOST: &str = "Ghost heading";
const KINDS: [&str; 9] = ["title", "paragraph", "table", "header", "footer", "list_item", "image", "code_block", "key_value"];

// ───────────────────────────── harness counters (public trait) ─────────────────────────────

/// additive: every word costs 1, words longer than 6 chars cost 2 (sum of per-word weights)
struct WeightedWords;
impl TokenCounter for WeightedWords {
    fn count(&self, text: &str) -> usize {
        text.split_whitespace().map(|w| if w.chars().count() > 6 { 2 } else { 1 }).sum()
    }
    fn name(&self) -> &'static str {
        "harness-weighted-words"
    }
    fn is_additive_over_whitespace_join(&self) -> bool {
        true
    }
}
/// non-additive: ceil(chars / 4)
struct CharsQuarter;
impl TokenCounter for CharsQuarter {
    fn count(&self, text: &str) -> usize {
        text.chars().count().div_ceil(4)
    }
    fn name(&self) -> &'static str {
        "harness-chars-quarter"
    }
}
/// non-additive over "\n": words + number of newline characters
struct WordsPlusSeps;
impl TokenCounter for WordsPlusSeps {
    fn count(&self, text: &str) -> usize {
        text.split_whitespace().count() + text.chars().filter(|&c| c == '\n').count()
    }
    fn name(&self) -> &'static str {
        "harness-words-plus-newlines"
    }
}

/// non-additive, super-additive over "\n": words + 3 per newline character (a join costs more than the parts plus one)
struct WordsPlusHeavySeps;
impl TokenCounter for WordsPlusHeavySeps {
    fn count(&self, text: &str) -> usize {
        text.split_whitespace().count() + 3 * text.chars().filter(|&c| c == '\n').count()
    }
    fn name(&self) -> &'static str {
        "harness-words-plus-3-per-newline"
    }
}

fn counter_of(c: u8) -> Arc<dyn TokenCounter> {
    match c {
        0 => Arc::new(WordProxyCounter),
        1 => Arc::new(WeightedWords),
        2 => Arc::new(CharsQuarter),
        3 => Arc::new(WordsPlusSeps),
        _ => Arc::new(WordsPlusHeavySeps),
    }
}
fn counter_label(c: u8) -> &'static str {
    match c {
        0 => "word-proxy",
        1 => "weighted-words(additive)",
        2 => "chars/4(non-additive)",
        3 => "words+newlines(non-additive)",
        _ => "words+3*newlines(non-additive)",
    }
}
fn non_additive(c: u8) -> bool {
    c >= 2
}

// ───────────────────────────── building the input ─────────────────────────────

fn word(i: usize, j: usize, e: &El) -> String {
    let mut s = format!("m{i}x{j}");
    let extra = if e.pad == 0 { 0 } else { (j * 5 + i) % (e.pad as usize + 1) };
    for _ in 0..extra {
        s.push('q');
    }
    s
}

fn words_text(i: usize, e: &El, n: usize) -> String {
    let sent = e.sent as usize;
    let mut s = String::new();
    if e.ws == 2 && n > 0 {
        s.push(' ');
    }
    for j in 0..n {
        if j > 0 {
            let prev_end = sent > 0 && j % sent == 0;
            match e.ws {
                1 if prev_end && (j / sent) % 2 == 1 => s.push('\n'),
                2 if j % 5 == 0 => s.push_str("  "),
                3 if prev_end => s.push_str(" \n "),
                _ => s.push(' '),
            }
        }
        s.push_str(&word(i, j, e));
        if sent > 0 && (j + 1) % sent == 0 {
            s.push(match (j / sent) % 3 {
                0 => '.',
                1 => '!',
                _ => '?',
            });
        }
    }
    if e.ws == 2 && n > 0 {
        s.push(' ');
    }
    s
}

fn title_text(i: usize, e: &El) -> String {
    if e.pad < 3 {
        POOL[e.pad as usize].to_string()
    } else {
        let n = (e.words as usize).min(10);
        let t = El { sent: 0, ws: 0, ..e.clone() };
        words_text(i, &t, n)
    }
}

pub struct Info {
    pub kind: u8,
    pub parent_heading: Option<String>,
    /// whitespace-separated words of the element's content (title/para text, cells row-major, alt text, key then value)
    pub words: Vec<String>,
    /// index of the governing title under the documented graph semantics (titles: themselves)
    pub governing: Option<usize>,
    pub region: &'static str,
}

fn split_ws(s: &str) -> Vec<String> {
    s.split_whitespace().map(|w| w.to_string()).collect()
}

pub fn build(c: &Case) -> (Vec<Element>, Vec<Info>) {
    let n = c.els.len();
    let titles: Vec<(usize, String)> = c.els.iter().enumerate().filter(|(_, e)| e.kind == 0).map(|(i, e)| (i, title_text(i, e))).collect();
    let first_title = titles.first().map(|t| t.0);
    let mut elements = Vec::with_capacity(n);
    let mut infos = Vec::with_capacity(n);
    for (i, e) in c.els.iter().enumerate() {
        let nearest: Option<&(usize, String)> = titles.iter().filter(|t| t.0 <= i).last();
        let parent_heading = match &e.head {
            Head::Nearest => nearest.map(|t| t.1.clone()),
            Head::Absent => None,
            Head::Pick(k) => {
                if titles.is_empty() {
                    None
                } else {
                    Some(titles[pick_idx(*k, titles.len())].1.clone())
                }
            }
            Head::Ghost => Some(GHOST.to_string()),
        };
        let md = ElementMetadata {
            page: i as u32,
            bbox: ElementBBox::new(i as f64, 0.0, 10.0, 10.0),
            parent_heading: parent_heading.clone(),
            heading_path: parent_heading.iter().cloned().collect(),
            ..Default::default()
        };
        let nw = e.words as usize;
        let text = if e.kind == 0 { title_text(i, e) } else { words_text(i, e, nw) };
        let (el, words) = match e.kind {
            0 => (Element::Title(ElementData { text: text.clone(), metadata: md }), split_ws(&text)),
            1 => (Element::Paragraph(ElementData { text: text.clone(), metadata: md }), split_ws(&text)),
            3 => (Element::Header(ElementData { text: text.clone(), metadata: md }), split_ws(&text)),
            4 => (Element::Footer(ElementData { text: text.clone(), metadata: md }), split_ws(&text)),
            5 => (Element::ListItem(ElementData { text: text.clone(), metadata: md }), split_ws(&text)),
            7 => (Element::CodeBlock(ElementData { text: text.clone(), metadata: md }), split_ws(&text)),
            2 => {
                let cols = 1 + (e.sent as usize % 3);
                let per_cell = 1 + (e.pad as usize % 3);
                let all: Vec<String> = (0..nw).map(|j| word(i, j, e)).collect();
                let cells: Vec<String> = all.chunks(per_cell).map(|c| c.join(" ")).collect();
                let mut rows: Vec<Vec<String>> = cells.chunks(cols).map(|r| r.to_vec()).collect();
                if let Some(last) = rows.last_mut() {
                    while last.len() < cols {
                        last.push(String::new());
                    }
                }
                if nw == 0 && e.ws % 2 == 1 {
                    rows = vec![vec![String::new()]];
                }
                (Element::Table(TableElementData::new(rows, md)), all)
            }
            6 => {
                let alt = if nw == 0 {
                    if e.ws % 2 == 0 {
                        None
                    } else {
                        Some(String::new())
                    }
                } else {
                    Some(text.clone())
                };
                (Element::Image(ImageElementData { alt_text: alt, metadata: md }), split_ws(&text))
            }
            _ => {
                let key = format!("m{i}xk");
                let mut w = vec![key.clone()];
                w.extend(split_ws(&text));
                (Element::KeyValue(KeyValueElementData { key, value: text.clone(), metadata: md }), w)
            }
        };
        let governing = if e.kind == 0 {
            Some(i)
        } else {
            parent_heading.as_ref().and_then(|h| titles.iter().filter(|t| t.0 < i && &t.1 == h).last().map(|t| t.0))
        };
        let region = if e.kind == 0 {
            "title"
        } else if first_title.map(|f| i < f).unwrap_or(true) {
            "preamble"
        } else {
            match governing {
                None => "orphan-after-first-title",
                Some(t) if Some(t) == nearest.map(|x| x.0) => "child-of-nearest-title",
                Some(_) => "child-after-later-title",
            }
        };
        elements.push(el);
        infos.push(Info { kind: e.kind, parent_heading, words, governing, region });
    }
    (elements, infos)
}

fn config_of(c: &Case) -> HybridChunkConfig {
    HybridChunkConfig {
        max_tokens: c.max_tokens as usize,
        overlap_tokens: c.overlap as usize,
        merge_adjacent: c.merge_adjacent,
        propagate_headings: c.propagate,
        merge_policy: if c.policy == 0 { MergePolicy::SameTypeOnly } else { MergePolicy::AnyInlineContent },
        context_mode: ctx_mode_of(c.ctx_mode),
    }
}
fn ctx_mode_of(m: u8) -> ContextMode {
    match m {
        0 => ContextMode::None,
        1 => ContextMode::Heading,
        2 => ContextMode::Contextual(ContextFormat::Labeled),
        _ => ContextMode::Contextual(ContextFormat::Prose),
    }
}

fn run_entry(c: &Case, elements: &[Element], graph: bool) -> Vec<HybridChunk> {
    let chunker = HybridChunker::new(config_of(c)).with_token_counter(counter_of(c.counter));
    if graph {
        let g = ElementGraph::build(elements);
        chunker.chunk_with_graph(elements, &g)
    } else {
        chunker.chunk(elements)
    }
}

// ───────────────────────────── reading the output ─────────────────────────────

/// content words of an output element, read from its public fields (not through display_text)
fn content_words(e: &Element) -> Vec<String> {
    match e {
        Element::Title(d) | Element::Paragraph(d) | Element::Header(d) | Element::Footer(d) | Element::ListItem(d) | Element::CodeBlock(d) => split_ws(&d.text),
        Element::Table(t) => t.rows.iter().flat_map(|r| r.iter()).flat_map(|c| split_ws(c)).collect(),
        Element::Image(i) => i.alt_text.as_deref().map(split_ws).unwrap_or_default(),
        Element::KeyValue(kv) => {
            let mut w = split_ws(&kv.key);
            w.extend(split_ws(&kv.value));
            w
        }
    }
}

/// `m<idx>x…` → (idx, "m<idx>x<digits|k>")
fn marker(w: &str) -> Option<(usize, String)> {
    let b = w.as_bytes();
    if b.first() != Some(&b'm') {
        return None;
    }
    let mut p = 1;
    while p < b.len() && b[p].is_ascii_digit() {
        p += 1;
    }
    if p == 1 || p >= b.len() || b[p] != b'x' {
        return None;
    }
    let idx: usize = w[1..p].parse().ok()?;
    let mut q = p + 1;
    if q < b.len() && b[q] == b'k' {
        q += 1;
    } else {
        while q < b.len() && b[q].is_ascii_digit() {
            q += 1;
        }
        if q == p + 1 {
            return None;
        }
    }
    Some((idx, w[..q].to_string()))
}

fn markers_of<'a>(words: impl Iterator<Item = &'a str>) -> Vec<String> {
    words.filter_map(|w| marker(w).map(|m| m.1)).collect()
}

struct OutEl {
    ident: Option<usize>,
    words: Vec<String>,
    chunk: usize,
}

fn fail_set(o: &mut Outcome, clause: &str, m: BTreeMap<String, Vec<String>>) {
    for (class, details) in m {
        o.fail(clause, class, trunc(&details.join("; "), 1200));
    }
}

fn describe(c: &Case, infos: &[Info]) -> String {
    let seq: Vec<String> = infos
        .iter()
        .enumerate()
        .map(|(i, inf)| format!("{i}:{}[{}w,{:?},{}]", KINDS[inf.kind as usize], inf.words.len(), inf.parent_heading, inf.region))
        .collect();
    format!(
        "max_tokens={} counter={} merge={} policy={} propagate={} | {}",
        c.max_tokens,
        counter_label(c.counter),
        c.merge_adjacent,
        c.policy,
        c.propagate,
        seq.join(" ")
    )
}

fn analyse(o: &mut Outcome, c: &Case, infos: &[Info], chunks: &[HybridChunk], graph: bool) {
    let entry = if graph { "entry=graph" } else { "entry=chunk" };
    let tag = if graph { "graph" } else { "chunk" };
    let n = infos.len();
    let counter = counter_of(c.counter);
    let max = c.max_tokens as usize;
    let ctx = || trunc(&describe(c, infos), 700);

    // flatten
    let mut out: Vec<OutEl> = Vec::new();
    for (k, ch) in chunks.iter().enumerate() {
        for e in ch.elements() {
            let words = content_words(e);
            let ident = match words.first().and_then(|w| marker(w)) {
                Some((i, _)) => Some(i),
                None => Some(e.metadata().page as usize),
            }
            .filter(|&i| i < n);
            out.push(OutEl { ident, words, chunk: k });
        }
    }

    // ── conservation / split / order ─────────────────────────────────────────
    let mut cons: BTreeMap<String, Vec<String>> = BTreeMap::new();
    let mut split: BTreeMap<String, Vec<String>> = BTreeMap::new();
    let mut order: BTreeMap<String, Vec<String>> = BTreeMap::new();
    let foreign = out.iter().filter(|e| e.ident.is_none()).count();
    if foreign > 0 {
        cons.entry(format!("{entry},foreign-element")).or_default().push(format!("{foreign} output element(s) that are no input element; {}", ctx()));
    }
    let mut pos: Vec<Vec<usize>> = vec![Vec::new(); n];
    for (p, e) in out.iter().enumerate() {
        if let Some(i) = e.ident {
            pos[i].push(p);
        }
    }
    let mut lost = vec![false; n];
    let mut any_split = false;
    for i in 0..n {
        let inf = &infos[i];
        let kind = KINDS[inf.kind as usize];
        if pos[i].is_empty() {
            lost[i] = true;
            cons.entry(format!("{entry},{}", inf.region)).or_default().push(format!("element {i} ({kind}, {} words) is in no chunk; {}", inf.words.len(), ctx()));
            continue;
        }
        let contiguous = pos[i].windows(2).all(|w| w[1] == w[0] + 1);
        let concat: Vec<&String> = pos[i].iter().flat_map(|&p| out[p].words.iter()).collect();
        let equal = concat.len() == inf.words.len() && concat.iter().zip(inf.words.iter()).all(|(a, b)| *a == b);
        if pos[i].len() > 1 {
            any_split = true;
        }
        if inf.words.is_empty() && pos[i].len() > 1 {
            cons.entry(format!("{entry},{},duplicated", inf.region)).or_default().push(format!("word-less element {i} ({kind}) occurs {} times; {}", pos[i].len(), ctx()));
        } else if equal {
            if !contiguous {
                order.entry(format!("{entry},fragments-interleaved")).or_default().push(format!("fragments of element {i} at output positions {:?}; {}", pos[i], ctx()));
            }
        } else {
            // more words than the element has, or a marker twice => duplication; otherwise content changed / bad split
            let mut seen = BTreeSet::new();
            let dup = concat.len() > inf.words.len() || concat.iter().any(|w| !seen.insert((*w).clone()));
            let got = trunc(&concat.iter().map(|s| s.as_str()).collect::<Vec<_>>().join(" "), 300);
            let exp = trunc(&inf.words.join(" "), 300);
            if dup {
                cons.entry(format!("{entry},{},duplicated", inf.region)).or_default().push(format!("element {i} ({kind}) content occurs more than once: got [{got}] expected [{exp}]; {}", ctx()));
            } else if pos[i].len() > 1 {
                split.entry(format!("{entry},kind={kind}")).or_default().push(format!("{} fragments of element {i} concatenate to [{got}], element is [{exp}]; {}", pos[i].len(), ctx()));
            } else {
                cons.entry(format!("{entry},{},content-changed", inf.region)).or_default().push(format!("element {i} ({kind}) emitted as [{got}], expected [{exp}]; {}", ctx()));
            }
        }
    }
    // order of first occurrences
    let mut max_prev: Option<(usize, usize)> = None; // (pos, idx)
    for i in 0..n {
        let Some(&p) = pos[i].first() else { continue };
        if let Some((mp, mi)) = max_prev {
            if p < mp {
                order
                    .entry(format!("{entry},{}", infos[i].region))
                    .or_default()
                    .push(format!("element {i} is emitted before element {mi} (output positions {p} < {mp}); {}", ctx()));
            }
        }
        if max_prev.map(|(mp, _)| p > mp).unwrap_or(true) {
            max_prev = Some((p, i));
        }
    }
    if lost.iter().any(|&l| l) {
        o.excluded(format!("C14/split-concat,order,heading on a lost element ({tag})"));
    }
    o.label_if(any_split, &format!("{tag}:some-element-split"));
    fail_set(o, "C14/conservation", cons);
    fail_set(o, "C14/split-concat", split);
    fail_set(o, "C14/order", order);

    // ── per chunk: budget, token estimate, emitted text, heading, RagChunk view ──
    let mut budget: BTreeMap<String, Vec<String>> = BTreeMap::new();
    let mut est: BTreeMap<String, Vec<String>> = BTreeMap::new();
    let mut textc: BTreeMap<String, Vec<String>> = BTreeMap::new();
    let mut heading: BTreeMap<String, Vec<String>> = BTreeMap::new();
    let mut view: BTreeMap<String, Vec<String>> = BTreeMap::new();
    let mut p0 = 0usize;
    let (mut n_over, mut n_near, mut n_multi, mut n_section_fit, mut n_over_fits, mut n_mixed, mut n_empty_chunk) = (0, 0, 0, 0, 0, 0, 0);
    for (k, ch) in chunks.iter().enumerate() {
        let els = ch.elements();
        let members: Vec<&OutEl> = out[p0..p0 + els.len()].iter().collect();
        p0 += els.len();
        let text = ch.text();
        let cost = counter.count(&text);
        let title_children = els.len() >= 2 && matches!(els[0], Element::Title(_));
        let shape = if title_children {
            "title+children"
        } else if els.len() >= 2 {
            "merged"
        } else {
            "single"
        };
        if els.is_empty() {
            n_empty_chunk += 1;
        }
        if els.len() >= 2 {
            n_multi += 1;
        }
        if title_children {
            n_section_fit += 1;
        }
        if ch.is_oversized() {
            n_over += 1;
            if cost <= max {
                n_over_fits += 1;
            }
        } else {
            if cost > max {
                let cl = format!("{entry},counter={},shape={shape}", if non_additive(c.counter) { "non-additive" } else { "additive" });
                budget.entry(cl).or_default().push(format!(
                    "chunk {k} ({} elements) is_oversized=false but {}(text)={cost} > max_tokens={max}; text={:?}; {}",
                    els.len(),
                    counter.name(),
                    trunc(&text, 200),
                    ctx()
                ));
            }
            if cost + 1 >= max {
                n_near += 1;
            }
        }
        if ch.token_estimate() != cost {
            est.entry(entry.to_string()).or_default().push(format!("chunk {k}: token_estimate()={} but {}(text())={cost}; {}", ch.token_estimate(), counter.name(), ctx()));
        }
        // the emitted text carries exactly the chunk's elements' markers, in order
        let from_text = markers_of(text.split_whitespace());
        let from_els = markers_of(members.iter().flat_map(|m| m.words.iter().map(|s| s.as_str())));
        if from_text != from_els {
            textc.entry(entry.to_string()).or_default().push(format!("chunk {k}: text() markers {:?} != elements' markers {:?}", trunc(&from_text.join(" "), 200), trunc(&from_els.join(" "), 200)));
        }
        // heading
        let ids: BTreeSet<usize> = members.iter().filter_map(|m| m.ident).collect();
        if !ids.is_empty() {
            let mut allowed: BTreeSet<Option<String>> = BTreeSet::new();
            let mut sections: BTreeSet<Option<usize>> = BTreeSet::new();
            for &i in &ids {
                let inf = &infos[i];
                let governed = graph && inf.region != "preamble" && inf.governing.is_some();
                if governed {
                    let t = inf.governing.unwrap();
                    sections.insert(Some(t));
                    allowed.insert(Some(title_string(c, t)));
                    if let Some(ph) = &infos[t].parent_heading {
                        allowed.insert(Some(ph.clone()));
                    }
                } else {
                    sections.insert(None);
                    allowed.insert(inf.parent_heading.clone());
                    if !c.propagate {
                        allowed.insert(None);
                    }
                }
            }
            if sections.len() > 1 || (!graph && ids.iter().map(|&i| &infos[i].parent_heading).collect::<BTreeSet<_>>().len() > 1) {
                n_mixed += 1;
            }
            if !allowed.contains(&ch.heading_context) {
                let cl = format!("{entry},propagate={}", c.propagate);
                heading.entry(cl).or_default().push(format!("chunk {k} (elements {:?}) heading_context={:?}, acceptable {:?}; {}", ids, ch.heading_context, allowed, ctx()));
            }
        }
        // RagChunk view under the configured context mode
        let r = RagChunk::from_hybrid_chunk_with_mode(k, ch, ctx_mode_of(c.ctx_mode));
        let mut bad: Vec<String> = Vec::new();
        if r.text != text {
            bad.push("text differs from HybridChunk::text()".into());
        }
        if r.token_estimate != ch.token_estimate() || r.is_oversized != ch.is_oversized() || r.heading_context != ch.heading_context || r.chunk_index != k {
            bad.push("token_estimate/is_oversized/heading_context/chunk_index not carried over".into());
        }
        match c.ctx_mode {
            0 => {
                if r.full_text != text {
                    bad.push(format!("ContextMode::None: full_text {:?} != text", trunc(&r.full_text, 120)));
                }
            }
            1 => {
                let exp = match &ch.heading_context {
                    Some(h) => format!("{h}\n\n{text}"),
                    None => text.clone(),
                };
                if r.full_text != exp {
                    bad.push(format!("ContextMode::Heading: full_text {:?} != heading + blank line + text", trunc(&r.full_text, 120)));
                }
            }
            _ => {
                if !(r.full_text == text || (r.full_text.ends_with(&text) && r.full_text[..r.full_text.len() - text.len()].ends_with("\n\n"))) {
                    bad.push(format!("ContextMode::Contextual: full_text {:?} is not [prefix + blank line +] text", trunc(&r.full_text, 160)));
                }
            }
        }
        if !bad.is_empty() {
            view.entry(format!("{entry},ctx_mode={}", c.ctx_mode)).or_default().push(format!("chunk {k}: {}", bad.join(", ")));
        }
    }
    fail_set(o, "C14/budget", budget);
    fail_set(o, "C14/token-estimate", est);
    fail_set(o, "C14/text-is-elements", textc);
    fail_set(o, "C14/heading", heading);
    fail_set(o, "C14/context-view", view);
    o.label_if(n_over > 0, &format!("{tag}:has-oversized-chunk"));
    o.label_if(n_near > 0, &format!("{tag}:chunk-at-or-1-below-budget"));
    o.label_if(n_near > 0 && non_additive(c.counter), &format!("{tag}:non-additive-near-budget"));
    o.label_if(n_multi > 0, &format!("{tag}:has-merged-chunk"));
    o.label_if(n_section_fit > 0, &format!("{tag}:has-title+children-chunk"));
    o.label_if(n_over_fits > 0, &format!("{tag}:oversized-flag-on-fitting-chunk(not asserted)"));
    o.label_if(n_mixed > 0, &format!("{tag}:chunk-with-mixed-headings"));
    o.label_if(n_empty_chunk > 0, &format!("{tag}:chunk-without-elements"));
}

fn title_string(c: &Case, t: usize) -> String {
    title_text(t, &c.els[t])
}

// ───────────────────────────── oracle ─────────────────────────────

pub fn check(c: &Case) -> Outcome {
    let mut o = Outcome::new();
    let (elements, infos) = build(c);
    let counter = counter_of(c.counter);
    let max = c.max_tokens as usize;

    // classification of the input
    let n_titles = infos.iter().filter(|i| i.kind == 0).count();
    let over_budget = elements.iter().filter(|e| counter.count(&e.display_text()) > max).count();
    o.nontrivial((n_titles >= 1 && over_budget >= 1) || non_additive(c.counter));
    o.label(format!("counter={}", counter_label(c.counter)));
    o.label(format!(
        "n={}",
        match c.els.len() {
            0 => "0",
            1..=4 => "1-4",
            5..=12 => "5-12",
            _ => "13-24",
        }
    ));
    o.label(format!(
        "max_tokens={}",
        match c.max_tokens {
            1 => "1",
            2..=8 => "2-8",
            9..=40 => "9-40",
            _ => "41-96",
        }
    ));
    o.label(format!("merge_adjacent={},policy={}", c.merge_adjacent, if c.policy == 0 { "SameTypeOnly" } else { "AnyInlineContent" }));
    o.label(format!("propagate_headings={}", c.propagate));
    o.label(format!("context_mode={}", ["None", "Heading", "Contextual(Labeled)", "Contextual(Prose)"][c.ctx_mode.min(3) as usize]));
    o.label_if(n_titles >= 1, "has-title");
    o.label_if(over_budget >= 1, "has-element-over-budget");
    let mut kinds = BTreeSet::new();
    for i in &infos {
        kinds.insert(i.kind);
    }
    for k in kinds {
        o.label(format!("kind={}", KINDS[k as usize]));
    }
    let mut regions = BTreeSet::new();
    for i in &infos {
        regions.insert(i.region);
    }
    for r in &regions {
        o.label(format!("region:{r}"));
    }
    o.label_if(infos.iter().any(|i| i.words.is_empty()), "has-wordless-element");
    let ttexts: Vec<String> = infos.iter().enumerate().filter(|(_, i)| i.kind == 0).map(|(t, _)| title_string(c, t)).collect();
    o.label_if(ttexts.iter().collect::<BTreeSet<_>>().len() < ttexts.len(), "duplicate-title-texts");
    o.label_if(
        infos.iter().enumerate().any(|(t, i)| i.kind == 0 && i.parent_heading.as_deref() != Some(title_string(c, t).as_str())),
        "title-with-absent-or-foreign-parent_heading",
    );
    let dirty = regions.contains("orphan-after-first-title") || regions.contains("child-after-later-title");
    o.label(if dirty { "headings:orphan-or-stale-after-first-title" } else { "headings:partitioner-like-after-first-title" });

    for graph in [false, true] {
        let chunks = run_entry(c, &elements, graph);
        analyse(&mut o, c, &infos, &chunks, graph);
        // determinism: a fresh chunker, a fresh graph, freshly built (equal) input
        let (elements2, _) = build(c);
        let again = run_entry(c, &elements2, graph);
        let a = format!("{chunks:?}");
        let b = format!("{again:?}");
        if a != b {
            o.fail("C14/determinism", if graph { "entry=graph" } else { "entry=chunk" }, format!("two runs differ: {} vs {}", trunc(&a, 300), trunc(&b, 300)));
        }
    }
    o
}

// ───────────────────────────── generator ─────────────────────────────

fn el_strategy() -> impl Strategy<Value = El> {
    let kind = prop_oneof![
        3 => Just(0u8), 6 => Just(1u8), 1 => Just(2u8), 1 => Just(3u8), 1 => Just(4u8), 3 => Just(5u8), 1 => Just(6u8), 1 => Just(7u8), 2 => Just(8u8)
    ];
    let words = prop_oneof![2 => Just(0u16), 5 => 1u16..=12, 4 => 13u16..=60, 2 => 61u16..=120];
    let sent = prop_oneof![1 => Just(0u8), 6 => 1u8..=15];
    let ws = prop_oneof![6 => Just(0u8), 2 => Just(1u8), 1 => Just(2u8), 1 => Just(3u8)];
    let head = prop_oneof![6 => Just(Head::Nearest), 2 => Just(Head::Absent), 2 => (0u16..=u16::MAX).prop_map(Head::Pick), 1 => Just(Head::Ghost)];
    (kind, words, sent, 0u8..=6, ws, head).prop_map(|(kind, words, sent, pad, ws, head)| El { kind, words, sent, pad, ws, head })
}

/// `dirty_pct` % of the cases keep the generated headings everywhere; in the others every non-title
/// element after the first title gets the partitioner's nearest-title heading.
pub fn strategy(dirty_pct: u32) -> impl Strategy<Value = Case> {
    let max_tokens = prop_oneof![3 => 1u16..=8, 4 => 9u16..=40, 3 => 41u16..=96];
    let counter = prop_oneof![3 => Just(0u8), 2 => Just(1u8), 3 => Just(2u8), 2 => Just(3u8), 3 => Just(4u8)];
    (
        prop::collection::vec(el_strategy(), 0..=24),
        max_tokens,
        prop_oneof![1 => Just(0u16), 1 => 1u16..=60],
        prop::bool::weighted(0.8),
        0u8..2,
        prop::bool::weighted(0.75),
        0u8..4,
        counter,
        0u32..100,
        (prop::bool::weighted(0.4), 0u16..=u16::MAX, 1usize..=4, -1i32..=2),
    )
        .prop_map(move |(mut els, max_tokens, overlap, merge_adjacent, policy, propagate, ctx_mode, counter, roll, tight)| {
            if roll >= dirty_pct {
                let mut seen_title = false;
                for e in els.iter_mut() {
                    if e.kind == 0 {
                        seen_title = true;
                    } else if seen_title {
                        e.head = Head::Nearest;
                    }
                }
            }
            let mut case = Case { els, max_tokens, overlap, merge_adjacent, policy, propagate, ctx_mode, counter };
            // "tight" budgets: max_tokens = summed cost of a run of 1–4 consecutive elements, -1 … +2,
            // so that merge / section-fit / split decisions are taken at the boundary
            let (is_tight, at, span, delta) = tight;
            if is_tight && !case.els.is_empty() {
                let (elements, _) = build(&case);
                let cnt = counter_of(counter);
                let lo = pick_idx(at, elements.len());
                let hi = (lo + span).min(elements.len());
                let sum: usize = elements[lo..hi].iter().map(|e| cnt.count(&e.display_text())).sum();
                case.max_tokens = (sum as i64 + delta as i64).clamp(1, 96) as u16;
            }
            case
        })
        .boxed()
}

fn run(ctx: &Ctx) {
    // before the section-graph findings are listed the generator is unrestricted; afterwards ~10 %
    // of the cases stay inside the affected region (orphan / stale headings after the first title)
    let listed = ctx.known_sig(SIG_ORPHAN) || ctx.known_sig(SIG_ORDER);
    let dirty_pct = if listed { 18 } else { 60 }; // 18 % of the rolls ≈ 10 % of the cases actually contain such an element
    ctx.note(format!("generator: {dirty_pct} % of the cases keep generated (possibly orphan/stale) headings after the first title"));
    ctx.run_sub("partition", ctx.tier.pick(150_000, 1_000_000), move || strategy(dirty_pct), check);
}

fn replay(ctx: &Ctx, sub: &str, case: &Value) -> Result<Outcome, String> {
    match sub.trim_start_matches("replay:") {
        "partition" => ctx.replay_case::<Case, _>(case, check),
        s => Err(format!("unknown sub-check {s}")),
    }
}
