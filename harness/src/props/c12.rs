//! C12 — font subsetting keeps every requested glyph intact.
//!
//! Oracle: the independent font reader `reffont` (sfnt/TrueType/cmap/CFF/Type 2 interpreter) is run on
//! the original font and on the bytes returned by the library; the subset must be a well-formed
//! font file and every requested, mapped character must resolve to the same flattened outline and
//! advance width as in the original.
use crate::engine::{pick_idx, Ctx, Outcome, PropertyDef};
use crate::reffont::build::{calibrate_roundtrip, GenComp, GenFont, GenGlyph, Xf};
use crate::reffont::build_cff::{self, CffSpec, GlyphSpec, SegSpec, SharedSpec, SubpathSpec, WrapSpec};
use crate::reffont::cff::Cff;
use crate::reffont::{self, Glyph, HMetrics, Sfnt, TtFont};
use oxidize_pdf::text::fonts::cff_subsetter::subset_cff_font;
use oxidize_pdf::text::fonts::truetype_subsetter::{should_skip_subsetting, subset_font, subset_font_by_gids};
use proptest::prelude::*;
use serde::{Deserialize, Serialize};
use serde_json::{json, Value};
use std::collections::{BTreeMap, BTreeSet, HashMap, HashSet};
use std::sync::atomic::{AtomicBool, Ordering};
use std::sync::{Mutex, OnceLock};

pub fn def() -> PropertyDef {
    PropertyDef {
        id: "C12",
        level: "exploration",
        rule: "sub `real`: each real font (Roboto TrueType, SourceSans3 OpenType/CFF, DejaVuSans, DejaVuSansMono) × generated character sets of size 0–400 (weighted to the thresholds 0, 1–9, 10) drawn from covered code points, code points mapped to composite glyphs, and uncovered code points, through subset_font / subset_cff_font, and generated glyph-id sets through subset_font_by_gids; sub `gen`: TrueType fonts from the reffont builder (2–600 glyphs; simple, empty, composite and nested composite glyphs in shuffled id order; component offsets as bytes/words, scale, x-y scale, 2×2, point matching; hinting instructions of length 0–40 on simple and composite glyphs; short/long loca with 1/2/4-byte glyph alignment; hmtx with a trailing side-bearing run; cmap format 4 (delta / glyphIdArray), 12, 6 decoy in six platform layouts; file size below, within ±20 bytes of, and above the 100 000-byte threshold) × character sets / glyph-id sets; sub `gencff`: OpenType/CFF fonts from the reffont CFF builder (name-keyed and CID-keyed with 1–3 font DICTs, FDSelect 0/3; charstrings encoded with every path operator incl. the flex family and 16.16 operands, stem hints, hintmask/cntrmask incl. implicit vstem, width operand present/absent; subroutinised as shared fragments and per-glyph runs, operand-only and operator-only subroutines, tails ending in endchar, nesting to depth 6, local and global, bias 107 and 1131; FontMatrix absent / default / 1/2048) × character sets through subset_cff_font and subset_font; sub `legacy`: the older glyph-driven TrueTypeFont::create_subset (behind FontEmbedder / CustomFont) on the real TrueType fonts and generated fonts, judged through the cmap the subset carries. Non-trivial: at least one requested character (glyph) resolves to a composite glyph (CFF: to a charstring that calls a subroutine), or the returned font is strictly smaller than the original; distinct by hash of the case.",
        assumptions: &[
            "well-formed TrueType subset = OpenType 'font file' rules (directory sorted by tag, 4-byte aligned non-overlapping tables inside the file, searchRange/entrySelector/rangeShift, per-table checksums with head computed with checkSumAdjustment = 0, whole-file checkSumAdjustment) + the tables ISO 32000-1 §9.9 requires of an embedded TrueType program (glyf head hhea hmtx loca maxp; cmap/name/OS/2/post are NOT demanded) + loca has numGlyphs+1 monotone entries inside glyf in the format head.indexToLocFormat announces + hmtx covers numGlyphs + every glyph description parses and component ids are < numGlyphs and acyclic",
            "well-formed CFF subset (the library returns bare CFF for OpenType/CFF input) = TN 5176 header, the four leading INDEXes and CharStrings/FDArray/Subrs INDEXes with first offset 1 and non-decreasing offsets inside the data, Top/Font/Private DICTs parse, charset and FDSelect cover every glyph, FD indices < FDArray count, Private DICT ranges inside the data, and every charstring interprets under TN 5177 and terminates in endchar",
            "'the original maps c' is read from the best Unicode cmap subtable: (3,10) > (0,4) > (3,1) > (0,3) > (0,0–2), formats 0/4/6/12; glyph 0 counts as unmapped",
            "the original's advance is hmtx; for CFF subsets (bare CFF, no hmtx) it is compared with the charstring width — in every font used the original's charstring widths equal its hmtx (checked in calibration), so the two readings coincide",
            "glyph_mapping entries for characters that were not requested are recorded (label) but not judged; glyph 0 of a subset must still be the original's glyph 0",
            "outlines are compared unhinted in font units after composite expansion (component transform, offset or matched points applied); TrueType instructions, lsb, glyph names and bounding boxes are not compared; for CFF the absolute path (moveto/lineto/curveto with absolute coordinates) and the advance (charstring width operand + nominalWidthX, or defaultWidthX) are compared, the original's advance being hmtx",
            "SCALED_COMPONENT_OFFSET is applied as the plain matrix product (the fonts used do not set it); seac-style endchar and the `random` operator are outside the reference interpreter (not present in the fonts used)",
            "an original FontMatrix different from [0.001 0 0 0.001 0 0] must survive in the CFF subset (clause outline-scale-kept): equal charstring coordinates under a different matrix are not 'the same outline'",
            "inside the region of a recorded finding (decided from the ORIGINAL font alone, e.g. short loca + a carried glyph of odd length once its instructions are removed) the glyph-data clauses it breaks are reported once under the finding's signature and counted as excluded; directory, table, mapping and advance clauses are still judged there",
            "an Err from a subsetting entry point on a valid font counts as a violation of 'the subset font is a well-formed font file' (clause C12/subset-produced)",
        ],
        trusted_base: &[
            "reffont sfnt/glyf/cmap reader (calibrated on 4 real fonts against the fonts' own maxp/hhea/checksums, and on every generated font against the builder's model)",
            "reffont CFF reader + Type 2 interpreter (calibrated on SourceSans3: all 2478 charstrings terminate, charstring widths = hmtx advances)",
            "reffont TrueType/CFF builders (every generated font is read back and compared with its model — outlines/paths, advances, cmap — before use; a mismatch is exit 2)",
        ],
        run,
        replay,
    }
}

// ------------------------------------------------------------------------------------------------
// real fonts + calibration
// ------------------------------------------------------------------------------------------------

pub struct Real {
    pub name: &'static str,
    pub bytes: &'static [u8],
    pub tt: Option<TtFont<'static>>,
    pub cff: Option<Cff<'static>>,
    pub advances: Vec<u16>,
    pub cmap: BTreeMap<u32, u16>,
    pub covered: Vec<u32>,
    pub covered_composite: Vec<u32>,
    pub composite: BTreeSet<u16>,
    pub nested: BTreeSet<u16>,
    pub composite_gids: Vec<u16>,
    pub calibration: Value,
}

static REALS: OnceLock<Result<Vec<Real>, String>> = OnceLock::new();
static HARNESS_BROKEN: AtomicBool = AtomicBool::new(false);
static HARNESS_MSG: Mutex<Vec<String>> = Mutex::new(Vec::new());

fn harness_broken(msg: String) {
    HARNESS_BROKEN.store(true, Ordering::SeqCst);
    let mut m = HARNESS_MSG.lock().unwrap();
    if m.len() < 5 {
        m.push(msg);
    }
}

fn find_font(name: &str) -> Result<Vec<u8>, String> {
    let vd = std::env::var("VERIF_DIR").unwrap_or_else(|_| "/verif".into());
    let mut cands = Vec::new();
    if let Ok(r) = std::env::var("VERIF_REPO") {
        cands.push(format!("{r}/test-pdfs/{name}"));
    }
    cands.push(format!("{vd}/assets/{name}"));
    cands.push(format!("/verif/assets/{name}"));
    cands.push(format!("{vd}/repo/test-pdfs/{name}"));
    cands.push(format!("/repo/test-pdfs/{name}"));
    for c in &cands {
        if let Ok(b) = std::fs::read(c) {
            if !b.is_empty() {
                return Ok(b);
            }
        }
    }
    Err(format!("font {name} not found in {cands:?}"))
}

fn load_real(name: &'static str) -> Result<Real, String> {
    let bytes: &'static [u8] = Box::leak(find_font(name)?.into_boxed_slice());
    let e = |i: reffont::Issue| format!("{name}: {}: {}", i.clause, i.detail);
    let sf = Sfnt::parse(bytes).map_err(e)?;
    let di = sf.directory_issues();
    if !di.is_empty() {
        return Err(format!("{name}: reference reader finds directory issues in a released font: {di:?}"));
    }
    let subs = reffont::parse_cmap(sf.table(b"cmap").map_err(e)?).map_err(e)?;
    let cmap = reffont::best_unicode(&subs).ok_or(format!("{name}: no Unicode cmap"))?.map.clone();
    // cmap calibration: the BMP restriction of the format-12 subtable equals the format-4 subtable
    let f4 = subs.iter().find(|s| (s.platform, s.encoding, s.format) == (3, 1, 4)).ok_or(format!("{name}: no (3,1) format 4"))?;
    let f12 = subs.iter().find(|s| (s.platform, s.encoding, s.format) == (3, 10, 12)).ok_or(format!("{name}: no (3,10) format 12"))?;
    let bmp12: BTreeMap<u32, u16> = f12.map.iter().filter(|(c, _)| **c <= 0xFFFF).map(|(c, g)| (*c, *g)).collect();
    if bmp12 != f4.map {
        return Err(format!("{name}: format 4 ({}) and BMP part of format 12 ({}) decode differently", f4.map.len(), bmp12.len()));
    }
    let hm = HMetrics::parse(&sf).map_err(e)?;
    let advances: Vec<u16> = (0..hm.num_glyphs).map(|g| hm.advance(g)).collect::<Result<_, _>>().map_err(e)?;
    let hhea = sf.table(b"hhea").map_err(e)?;
    let adv_max = reffont::be16(hhea, 10).map_err(e)?;
    // Roboto's own hhea.advanceWidthMax (2710) is stale: three of its hmtx advances are larger (2883, 3032, 4368;
    // confirmed by a separate struct-level read outside the harness). The other three fonts agree exactly.
    let adv_ok = advances.iter().copied().max() == Some(adv_max);
    if !adv_ok && name != "Roboto-Regular.ttf" {
        return Err(format!("{name}: max advance read {:?}, hhea.advanceWidthMax {adv_max}", advances.iter().max()));
    }
    if cmap.values().any(|&g| g >= hm.num_glyphs) {
        return Err(format!("{name}: cmap maps beyond numGlyphs"));
    }
    let mut calib = json!({"glyphs": hm.num_glyphs, "advance_sum": advances.iter().map(|&a| a as u64).sum::<u64>(), "cmap_entries": cmap.len(), "cmap_bmp_entries": f4.map.len(), "max_advance_equals_hhea": adv_ok});
    let (mut tt, mut cf) = (None, None);
    let (mut composite, mut nested) = (BTreeSet::new(), BTreeSet::new());
    if sf.has(b"glyf") {
        let t = TtFont::parse(bytes).map_err(e)?;
        let gi = t.glyph_issues();
        if !gi.is_empty() {
            return Err(format!("{name}: reference reader cannot read released glyphs: {gi:?}"));
        }
        // against the font's own maxp: maxPoints, maxContours, maxCompositePoints, maxCompositeContours, maxComponentElements, maxComponentDepth
        let maxp = sf.table(b"maxp").map_err(e)?;
        let own: Vec<u16> = (0..14).map(|i| reffont::be16(maxp, 6 + 2 * i).unwrap_or(0)).collect();
        let (mut mp, mut mc, mut mcp, mut mcc, mut mce, mut mcd) = (0usize, 0usize, 0usize, 0usize, 0usize, 0usize);
        let mut idem = 0u32;
        for g in 0..t.num_glyphs {
            let o = t.flatten(g).map_err(e)?;
            let pts: usize = o.iter().map(|c| c.len()).sum();
            match t.glyph(g).map_err(e)? {
                Glyph::Simple { .. } => {
                    mp = mp.max(pts);
                    mc = mc.max(o.len());
                }
                Glyph::Composite { comps, .. } => {
                    mcp = mcp.max(pts);
                    mcc = mcc.max(o.len());
                    mce = mce.max(comps.len());
                    mcd = mcd.max(t.component_depth(g));
                }
                Glyph::Empty => {}
            }
            // idempotence: a flattened outline written as a simple glyph reads back as itself
            if !o.is_empty() && o.iter().flatten().all(|p| p.x.fract() == 0.0 && p.y.fract() == 0.0 && p.x.abs() < 16000.0 && p.y.abs() < 16000.0) {
                let f = GenFont {
                    upem: 1000,
                    long_loca: true,
                    align: 2,
                    glyphs: vec![GenGlyph::Simple { contours: o.iter().map(|c| c.iter().map(|p| (p.x as i16, p.y as i16, p.on)).collect()).collect(), instr: vec![], compact: g % 2 == 0 }],
                    metrics: vec![(0, 0)],
                    n_hmetrics: 1,
                    cmap: vec![],
                    cmap_kind: 0,
                    fmt4_glyph_array: false,
                    pad: 0,
                };
                let b = f.build();
                let back = TtFont::parse(&b).and_then(|t2| t2.flatten(0)).map_err(e)?;
                if back != o {
                    return Err(format!("{name}: glyph {g}: flatten → simple glyph → flatten is not the identity"));
                }
                idem += 1;
            }
        }
        let mine = [mp, mc, mcp, mcc];
        if mine.iter().zip(&own[0..4]).any(|(a, b)| *a != *b as usize) || mce != own[11] as usize || mcd.max(1) != (own[12] as usize).max(1) {
            return Err(format!("{name}: maxp says points/contours/compositePoints/compositeContours {:?}, componentElements {}, componentDepth {}; reference computes {mine:?}, {mce}, {mcd}", &own[0..4], own[11], own[12]));
        }
        (composite, nested) = reffont::composite_sets(&t);
        calib["composite_glyphs"] = json!(composite.len());
        calib["nested_composite_glyphs"] = json!(nested.len());
        calib["flatten_idempotent_glyphs"] = json!(idem);
        calib["maxp_agrees"] = json!(true);
        tt = Some(t);
    } else {
        let c = Cff::parse(sf.table(b"CFF ").map_err(e)?).map_err(e)?;
        if c.num_glyphs() != hm.num_glyphs as usize {
            return Err(format!("{name}: CharStrings count {} vs maxp.numGlyphs {}", c.num_glyphs(), hm.num_glyphs));
        }
        let ci = c.charstring_issues();
        if !ci.is_empty() {
            return Err(format!("{name}: reference interpreter fails on released charstrings: {ci:?}"));
        }
        let (mut with_subr, mut with_mask) = (0u32, 0u32);
        for g in 0..c.num_glyphs() {
            let r = c.run(g).map_err(e)?;
            if r.width != advances[g] as f64 {
                return Err(format!("{name}: glyph {g}: charstring width {} vs hmtx advance {}", r.width, advances[g]));
            }
            with_subr += (r.subr_calls > 0) as u32;
            with_mask += (r.masks > 0) as u32;
        }
        calib["cff_widths_equal_hmtx"] = json!(true);
        calib["charstrings_calling_subrs"] = json!(with_subr);
        calib["charstrings_with_hintmask"] = json!(with_mask);
        calib["global_subrs"] = json!(c.gsubrs.count);
        calib["local_subrs"] = json!(c.fds[0].subrs.as_ref().map(|s| s.count).unwrap_or(0));
        cf = Some(c);
    }
    let covered: Vec<u32> = cmap.keys().copied().filter(|c| char::from_u32(*c).is_some()).collect();
    let covered_composite: Vec<u32> = covered.iter().copied().filter(|c| composite.contains(&cmap[c])).collect();
    let composite_gids: Vec<u16> = composite.iter().copied().collect();
    Ok(Real { name, bytes, tt, cff: cf, advances, cmap, covered, covered_composite, composite, nested, composite_gids, calibration: calib })
}

pub fn reals() -> &'static Result<Vec<Real>, String> {
    REALS.get_or_init(|| {
        let names: [&'static str; 4] = ["Roboto-Regular.ttf", "SourceSans3-Regular.otf", "DejaVuSans.ttf", "DejaVuSansMono.ttf"];
        let mut out: Vec<Option<Result<Real, String>>> = names.iter().map(|_| None).collect();
        std::thread::scope(|s| {
            for (slot, name) in out.iter_mut().zip(names) {
                s.spawn(move || *slot = Some(load_real(name)));
            }
        });
        out.into_iter().map(|r| r.unwrap()).collect()
    })
}

// ------------------------------------------------------------------------------------------------
// oracle
// ------------------------------------------------------------------------------------------------

fn glyph_kind(tt: &TtFont, composite: &BTreeSet<u16>, nested: &BTreeSet<u16>, g: u16) -> &'static str {
    if nested.contains(&g) {
        "nested-composite"
    } else if composite.contains(&g) {
        "composite"
    } else if tt.glyph_bytes(g).map(|b| b.is_empty()).unwrap_or(false) {
        "empty"
    } else {
        "simple"
    }
}

struct OrigTt<'a> {
    bytes: &'a [u8],
    tt: &'a TtFont<'a>,
    cmap: &'a BTreeMap<u32, u16>,
    composite: &'a BTreeSet<u16>,
    nested: &'a BTreeSet<u16>,
    /// coarse class of the font for signatures
    class: String,
}

/// Well-formedness of a returned TrueType font; returns the parsed subset when it is readable at all.
fn wellformed_tt<'b>(o: &mut Outcome, class: &str, sub: &'b [u8]) -> Option<TtFont<'b>> {
    match Sfnt::parse(sub) {
        Ok(sf) => {
            for i in sf.directory_issues() {
                o.fail(&format!("C12/wf-{}", i.clause), "truetype-subset", i.detail);
            }
        }
        Err(i) => {
            o.fail(&format!("C12/wf-{}", i.clause), "truetype-subset", i.detail);
            return None;
        }
    }
    match TtFont::parse(sub) {
        Ok(t) => {
            for i in t.glyph_issues() {
                o.fail(&format!("C12/wf-{}", i.clause), class, i.detail);
            }
            Some(t)
        }
        Err(i) => {
            o.fail(&format!("C12/wf-{}", i.clause), class, i.detail);
            None
        }
    }
}

fn same_glyph(o: &mut Outcome, orig: &OrigTt, sub: &TtFont, old: u16, new: u16, what: &str) {
    let kind = glyph_kind(orig.tt, orig.composite, orig.nested, old);
    let class = format!("{},{}", orig.class, kind);
    let Ok(want) = orig.tt.flatten(old) else {
        o.label("orig-glyph-unreadable");
        return;
    };
    match sub.flatten(new) {
        Ok(got) => {
            if got != want {
                let (np, nw): (usize, usize) = (got.iter().map(|c| c.len()).sum(), want.iter().map(|c| c.len()).sum());
                let first = want.iter().flatten().zip(got.iter().flatten()).position(|(a, b)| a != b);
                o.fail(
                    "C12/outline-equal",
                    class.clone(),
                    format!("{what}: original glyph {old} has {} contours / {nw} points, subset glyph {new} has {} contours / {np} points; first differing point index {first:?}: {:?} vs {:?}", want.len(), got.len(), first.and_then(|i| want.iter().flatten().nth(i)), first.and_then(|i| got.iter().flatten().nth(i))),
                );
            }
        }
        Err(i) => o.fail("C12/outline-equal", class.clone(), format!("{what}: subset glyph {new} (original {old}) is unreadable: {}: {}", i.clause, i.detail)),
    }
    match (orig.tt.advance(old), sub.advance(new)) {
        (Ok(a), Ok(b)) if a == b => {}
        (a, b) => o.fail("C12/advance-equal", class, format!("{what}: original glyph {old} advance {a:?}, subset glyph {new} advance {b:?}")),
    }
}

/// the Unicode-capable cmap subtables of a font, e.g. "(0,3)f4+(0,4)f12"
fn cmap_layout(font: &[u8]) -> String {
    let Ok(subs) = Sfnt::parse(font).and_then(|s| s.table(b"cmap")).and_then(reffont::parse_cmap) else { return "?".into() };
    let mut v: Vec<String> = subs.iter().filter(|s| matches!(s.platform, 0 | 3)).map(|s| format!("({},{})f{}", s.platform, s.encoding, s.format)).collect();
    v.sort();
    v.join("+")
}

fn size_label(n: usize) -> String {
    match n {
        0 => "set-size=0".into(),
        1..=9 => "set-size=1-9".into(),
        10..=24 => "set-size=10-24".into(),
        _ => format!("set-size={}-{}", n / 25 * 25, n / 25 * 25 + 24),
    }
}

fn to_chars(cps: &[u32]) -> HashSet<char> {
    cps.iter().filter_map(|&c| char::from_u32(c)).collect()
}

/// mapping clauses shared by every char-driven entry point; calls `glyph(c, old, new)` for each
/// requested character the original maps and the mapping resolves.
fn mapping_clauses(o: &mut Outcome, class: &str, layout: &str, cmap: &BTreeMap<u32, u16>, req: &HashSet<char>, mapping: &HashMap<u32, u16>, mut glyph: impl FnMut(&mut Outcome, u32, u16, u16)) {
    let mut keys: Vec<u32> = mapping.keys().copied().collect();
    keys.sort();
    for k in keys {
        let requested = char::from_u32(k).map(|c| req.contains(&c)).unwrap_or(false);
        if !requested {
            // not demanded by the property statement: recorded, not judged
            o.label("mapping-has-unrequested-chars");
        } else if !cmap.contains_key(&k) {
            o.fail("C12/mapping-unmapped-absent", class, format!("glyph_mapping has U+{k:04X} → {}, but the original cmap does not map it", mapping[&k]));
        }
    }
    let mut rq: Vec<u32> = req.iter().map(|&c| c as u32).collect();
    rq.sort();
    let (mut mapped, mut unmapped) = (0, 0);
    for c in rq {
        match cmap.get(&c) {
            Some(&old) => {
                mapped += 1;
                match mapping.get(&c) {
                    Some(&new) => glyph(o, c, old, new),
                    None => o.fail("C12/mapping-has-requested", format!("{},cmap subtables {layout},{}", class.split(',').next().unwrap_or(class), if c > 0xFFFF { "supplementary" } else { "bmp" }), format!("U+{c:04X} is mapped by the original (glyph {old}) but missing from glyph_mapping")),
                }
            }
            None => unmapped += 1,
        }
    }
    o.label_if(mapped > 0, "has-mapped-chars");
    o.label_if(unmapped > 0, "has-unmapped-chars");
    o.label_if(mapped == 0 && !req.is_empty(), "only-unmapped-chars");
}

pub const SIG_SHORT_LOCA_ODD: &str = "C12/glyph-data-intact|loca=short,odd glyph length after instruction stripping";

/// Glyphs the subset has to carry for `roots`: the roots, glyph 0 and all components (closure), read by reffont.
fn closure(tt: &TtFont, roots: impl Iterator<Item = u16>) -> BTreeSet<u16> {
    let mut keep: BTreeSet<u16> = BTreeSet::new();
    let mut work: Vec<u16> = roots.chain(std::iter::once(0)).filter(|g| *g < tt.num_glyphs).collect();
    while let Some(g) = work.pop() {
        if keep.insert(g) {
            if let Ok(Glyph::Composite { comps, .. }) = tt.glyph(g) {
                work.extend(comps.iter().map(|c| c.gid).filter(|g| *g < tt.num_glyphs));
            }
        }
    }
    keep
}

/// Region of the recorded finding SIG_SHORT_LOCA_ODD, decided from the ORIGINAL font alone: short loca and a
/// carried glyph whose description has an odd length once its instructions are removed.
fn short_loca_odd_region(orig: &OrigTt, keep: &BTreeSet<u16>) -> bool {
    orig.tt.loc_format == 0
        && keep.iter().any(|&g| {
            let len = orig.tt.glyph_bytes(g).map(|b| b.len()).unwrap_or(0);
            match orig.tt.glyph(g) {
                Ok(Glyph::Simple { instr_len, .. }) | Ok(Glyph::Composite { instr_len, .. }) => (len - instr_len) % 2 == 1,
                _ => false,
            }
        })
}

/// Inside the region of a recorded finding the glyph-data clauses it breaks are reported once under the finding's
/// own signature and counted as excluded; everything else (directory, tables, mapping, advances) is still judged.
fn collapse_short_loca_odd(o: &mut Outcome, in_region: bool) {
    o.label_if(in_region, "region:short-loca-odd-stripped-glyph");
    if !in_region {
        return;
    }
    const BROKEN: [&str; 7] = ["C12/wf-glyph-structure", "C12/wf-component-range", "C12/wf-composite-cycle", "C12/wf-composite-depth", "C12/wf-component-point-match", "C12/wf-loca-bounds", "C12/outline-equal"];
    let (hit, rest): (Vec<_>, Vec<_>) = std::mem::take(&mut o.fails).into_iter().partition(|f| BROKEN.contains(&f.clause.as_str()));
    o.fails = rest;
    if let Some(f) = hit.first() {
        let (clause, class) = SIG_SHORT_LOCA_ODD.split_once('|').unwrap();
        o.fail(clause, class, format!("{} glyph-data failures, first: {} — {}", hit.len(), f.clause, f.detail));
        let mut cl: Vec<&str> = hit.iter().map(|f| f.clause.as_str()).collect();
        cl.sort();
        cl.dedup();
        for c in cl {
            o.excluded(c);
        }
    }
}

fn check_tt_chars(o: &mut Outcome, orig: &OrigTt, cps: &[u32]) {
    let req = to_chars(cps);
    o.label(size_label(req.len()));
    let skip = should_skip_subsetting(orig.bytes.len(), req.len());
    let res = match subset_font(orig.bytes.to_vec(), &req) {
        Ok(r) => r,
        Err(e) => {
            o.fail("C12/subset-produced", orig.class.clone(), format!("subset_font returned Err: {e}"));
            return;
        }
    };
    let full = res.font_data == orig.bytes;
    o.label(if full {
        if skip {
            "path=skip(should_skip_subsetting)"
        } else {
            "path=full-font-kept"
        }
    } else {
        "path=subset"
    });
    if skip && !full {
        o.fail("C12/skip-returns-original", orig.class.clone(), "should_skip_subsetting is true but the returned font differs from the original".to_string());
    }
    if res.is_raw_cff {
        o.fail("C12/wf-kind", orig.class.clone(), "TrueType input answered with is_raw_cff = true".to_string());
        return;
    }
    o.nontrivial(res.font_data.len() < orig.bytes.len());
    let parsed;
    let sub: &TtFont = if full {
        orig.tt
    } else {
        match wellformed_tt(o, &orig.class, &res.font_data) {
            Some(t) => {
                parsed = t;
                &parsed
            }
            None => {
                let keep = closure(orig.tt, req.iter().filter_map(|c| orig.cmap.get(&(*c as u32)).copied()));
                collapse_short_loca_odd(o, short_loca_odd_region(orig, &keep));
                return;
            }
        }
    };
    let keep = closure(orig.tt, req.iter().filter_map(|c| orig.cmap.get(&(*c as u32)).copied()));
    let in_region = !full && short_loca_odd_region(orig, &keep);
    check_tt_chars_glyphs(o, orig, &req, &res.glyph_mapping, sub, full);
    collapse_short_loca_odd(o, in_region);
}

fn check_tt_chars_glyphs(o: &mut Outcome, orig: &OrigTt, req: &HashSet<char>, mapping: &HashMap<u32, u16>, sub: &TtFont, full: bool) {
    let mut any_comp = false;
    mapping_clauses(o, &orig.class, &cmap_layout(orig.bytes), orig.cmap, req, mapping, |o, c, old, new| {
        if orig.composite.contains(&old) {
            any_comp = true;
            o.label(if orig.nested.contains(&old) { "requested-nested-composite" } else { "requested-composite" });
        }
        if new >= sub.num_glyphs {
            o.fail("C12/mapping-gid-in-range", orig.class.clone(), format!("U+{c:04X} → glyph {new}, subset has {} glyphs", sub.num_glyphs));
            return;
        }
        same_glyph(o, orig, sub, old, new, &format!("U+{c:04X}"));
    });
    o.nontrivial(any_comp);
    if !full {
        // glyph 0 stays the missing-glyph
        same_glyph(o, orig, sub, 0, 0, ".notdef");
    }
}

fn check_tt_gids(o: &mut Outcome, orig: &OrigTt, gids: &[u16]) {
    let req: HashSet<u16> = gids.iter().copied().filter(|&g| g < orig.tt.num_glyphs).collect();
    o.label(size_label(req.len()));
    o.label("api=subset_font_by_gids");
    let res = match subset_font_by_gids(orig.bytes.to_vec(), &req) {
        Ok(r) => r,
        Err(e) => {
            o.fail("C12/subset-produced", orig.class.clone(), format!("subset_font_by_gids returned Err: {e}"));
            return;
        }
    };
    o.nontrivial(res.font_data.len() < orig.bytes.len());
    o.label(if res.font_data == orig.bytes { "path=full-font-kept" } else { "path=subset" });
    let keep = closure(orig.tt, req.iter().copied());
    let in_region = short_loca_odd_region(orig, &keep);
    let Some(sub) = wellformed_tt(o, &orig.class, &res.font_data) else {
        collapse_short_loca_odd(o, in_region);
        return;
    };
    // the carried set is exactly the requested glyphs, glyph 0 and their components
    let got: BTreeSet<u16> = res.old_to_new.keys().copied().collect();
    if got != keep {
        let extra: Vec<_> = got.difference(&keep).take(5).collect();
        let missing: Vec<_> = keep.difference(&got).take(5).collect();
        if !missing.is_empty() {
            o.fail("C12/components-carried", orig.class.clone(), format!("old_to_new lacks glyphs {missing:?} needed by the requested glyphs (components / glyph 0)"));
        }
        o.label_if(!extra.is_empty(), "subset-carries-extra-glyphs");
    }
    let mut pairs: Vec<(u16, u16)> = res.old_to_new.iter().map(|(a, b)| (*a, *b)).collect();
    pairs.sort();
    let mut seen = BTreeSet::new();
    for &(_, n) in &pairs {
        if !seen.insert(n) {
            o.fail("C12/mapping-injective", orig.class.clone(), format!("two original glyphs share subset glyph {n}"));
        }
    }
    let mut rq: Vec<u16> = req.iter().copied().collect();
    rq.push(0);
    rq.sort();
    rq.dedup();
    let mut any_comp = false;
    for g in rq {
        if !res.old_to_new.contains_key(&g) {
            o.fail("C12/mapping-has-requested", format!("{},gid", orig.class), format!("requested glyph {g} is missing from old_to_new"));
        }
        if orig.composite.contains(&g) {
            any_comp = true;
            o.label(if orig.nested.contains(&g) { "requested-nested-composite" } else { "requested-composite" });
        }
    }
    o.nontrivial(any_comp);
    for (old, new) in pairs {
        if old >= orig.tt.num_glyphs {
            o.fail("C12/mapping-only-requested", orig.class.clone(), format!("old_to_new has glyph {old}, the font has {}", orig.tt.num_glyphs));
            continue;
        }
        if new >= sub.num_glyphs {
            o.fail("C12/mapping-gid-in-range", orig.class.clone(), format!("glyph {old} → {new}, subset has {} glyphs", sub.num_glyphs));
            continue;
        }
        same_glyph(o, orig, &sub, old, new, &format!("gid {old}"));
    }
    collapse_short_loca_odd(o, in_region);
}

struct OrigCff<'a> {
    bytes: &'a [u8],
    cff: &'a Cff<'a>,
    advances: &'a [u16],
    cmap: &'a BTreeMap<u32, u16>,
    class: String,
}

fn wellformed_cff<'b>(o: &mut Outcome, class: &str, sub: &'b [u8]) -> Option<Cff<'b>> {
    match Cff::parse(sub) {
        Ok(c) => {
            for i in c.charstring_issues() {
                o.fail(&format!("C12/wf-{}", i.clause), class, i.detail);
            }
            Some(c)
        }
        Err(i) => {
            o.fail(&format!("C12/wf-{}", i.clause), class, i.detail);
            None
        }
    }
}

fn check_cff_chars(o: &mut Outcome, orig: &OrigCff, cps: &[u32], direct: bool) {
    let req = to_chars(cps);
    o.label(size_label(req.len()));
    o.label(if direct { "api=subset_cff_font" } else { "api=subset_font" });
    let (data, mapping, raw) = if direct {
        match subset_cff_font(orig.bytes, &req) {
            Ok(r) => (r.font_data, r.glyph_mapping, r.is_raw_cff),
            Err(e) => {
                o.fail("C12/subset-produced", orig.class.clone(), format!("subset_cff_font returned Err: {e}"));
                return;
            }
        }
    } else {
        match subset_font(orig.bytes.to_vec(), &req) {
            Ok(r) => (r.font_data, r.glyph_mapping, r.is_raw_cff),
            Err(e) => {
                o.fail("C12/subset-produced", orig.class.clone(), format!("subset_font returned Err: {e}"));
                return;
            }
        }
    };
    let full = data == orig.bytes;
    o.label(if full { "path=full-font-kept" } else if raw { "path=subset(raw CFF)" } else { "path=subset(sfnt)" });
    if !direct && should_skip_subsetting(orig.bytes.len(), req.len()) && !full {
        o.fail("C12/skip-returns-original", orig.class.clone(), "should_skip_subsetting is true but the returned font differs from the original".to_string());
    }
    o.nontrivial(data.len() < orig.bytes.len());
    // locate the CFF data of the result
    let parsed;
    let sub: &Cff = if full {
        if raw {
            o.fail("C12/wf-kind", orig.class.clone(), "the unchanged OpenType file is announced as raw CFF".to_string());
            return;
        }
        orig.cff
    } else if raw {
        match wellformed_cff(o, &orig.class, &data) {
            Some(c) => {
                parsed = c;
                &parsed
            }
            None => return,
        }
    } else {
        // an OpenType wrapper around a new CFF table
        let table = match Sfnt::parse(&data) {
            Ok(sf) => {
                for i in sf.directory_issues() {
                    o.fail(&format!("C12/wf-{}", i.clause), orig.class.clone(), i.detail);
                }
                match sf.table(b"CFF ") {
                    Ok(t) => t.to_vec(),
                    Err(i) => {
                        o.fail(&format!("C12/wf-{}", i.clause), orig.class.clone(), i.detail);
                        return;
                    }
                }
            }
            Err(i) => {
                o.fail(&format!("C12/wf-{}", i.clause), orig.class.clone(), i.detail);
                return;
            }
        };
        let leaked: &'static [u8] = Box::leak(table.into_boxed_slice()); // rare path (not produced by the current library)
        match wellformed_cff(o, &orig.class, leaked) {
            Some(c) => {
                parsed = c;
                &parsed
            }
            None => return,
        }
    };
    let eff = |m: &Option<Vec<f64>>| m.clone().unwrap_or_else(|| vec![0.001, 0.0, 0.0, 0.001, 0.0, 0.0]);
    if !full && eff(&sub.font_matrix) != eff(&orig.cff.font_matrix) {
        o.fail("C12/outline-scale-kept", "cff,FontMatrix != default", format!("original FontMatrix {:?}, subset FontMatrix {:?} (absent = [0.001 0 0 0.001 0 0]): the same charstring coordinates now describe a differently scaled outline and advance", orig.cff.font_matrix, sub.font_matrix));
    }
    let mut any_subr = false;
    let cmp = |o: &mut Outcome, what: String, old: u16, new: u16, any_subr: &mut bool| {
        let Ok(want) = orig.cff.run(old as usize) else {
            o.label("orig-glyph-unreadable");
            return;
        };
        if want.subr_calls > 0 {
            *any_subr = true;
            o.label("requested-charstring-with-subrs");
        }
        o.label_if(want.masks > 0, "requested-charstring-with-hintmask");
        let class = format!("{},{}", orig.class, if want.subr_calls > 0 { "with-subrs" } else { "no-subrs" });
        match sub.run(new as usize) {
            Ok(got) => {
                if got.path != want.path {
                    let first = want.path.iter().zip(&got.path).position(|(a, b)| a != b);
                    o.fail("C12/outline-equal", class.clone(), format!("{what}: original glyph {old}: {} segments, subset glyph {new}: {} segments, first difference at {first:?}: {:?} vs {:?}", want.path.len(), got.path.len(), first.map(|i| want.path[i]), first.map(|i| got.path[i])));
                }
                let adv = orig.advances.get(old as usize).copied();
                if !full && Some(got.width) != adv.map(|a| a as f64) {
                    o.fail("C12/advance-equal", class, format!("{what}: original glyph {old} advance {adv:?} (hmtx; charstring {}), subset glyph {new} charstring width {}", want.width, got.width));
                }
            }
            Err(i) => o.fail("C12/outline-equal", class, format!("{what}: subset glyph {new} (original {old}) is not interpretable: {}", i.detail)),
        }
    };
    mapping_clauses(o, &orig.class, &cmap_layout(orig.bytes), orig.cmap, &req, &mapping, |o, c, old, new| {
        if new as usize >= sub.num_glyphs() {
            o.fail("C12/mapping-gid-in-range", orig.class.clone(), format!("U+{c:04X} → glyph {new}, subset has {} glyphs", sub.num_glyphs()));
            return;
        }
        cmp(o, format!("U+{c:04X}"), old, new, &mut any_subr);
    });
    if !full {
        cmp(o, ".notdef".into(), 0, 0, &mut any_subr);
    }
    o.nontrivial(any_subr && !full);
}

// ------------------------------------------------------------------------------------------------
// cases
// ------------------------------------------------------------------------------------------------

#[derive(Clone, Debug, Serialize, Deserialize)]
pub struct RealCase {
    pub font: u8,
    /// 0 subset_font · 1 subset_cff_font (CFF fonts) · 2 subset_font_by_gids (TrueType fonts)
    pub api: u8,
    pub cps: Vec<u32>,
    pub gids: Vec<u16>,
}

pub fn check_real(c: &RealCase) -> Outcome {
    let mut o = Outcome::new();
    let Ok(rs) = reals() else { return o };
    let Some(r) = rs.get(c.font as usize) else { return o };
    o.label(format!("font={}", r.name));
    if let Some(tt) = &r.tt {
        let orig = OrigTt { bytes: r.bytes, tt, cmap: &r.cmap, composite: &r.composite, nested: &r.nested, class: "truetype,loca=long".into() };
        if c.api == 2 {
            check_tt_gids(&mut o, &orig, &c.gids);
        } else {
            o.label("api=subset_font");
            check_tt_chars(&mut o, &orig, &c.cps);
        }
    } else if let Some(cf) = &r.cff {
        let orig = OrigCff { bytes: r.bytes, cff: cf, advances: &r.advances, cmap: &r.cmap, class: "cff,name-keyed".into() };
        check_cff_chars(&mut o, &orig, &c.cps, c.api == 1);
    }
    dedup_labels(&mut o);
    o
}

/// labels describe the case: count each once per case
fn dedup_labels(o: &mut Outcome) {
    o.labels.sort();
    o.labels.dedup();
}

#[derive(Clone, Debug, Serialize, Deserialize)]
pub struct GenCase {
    pub font: GenFont,
    /// 0 subset_font · 2 subset_font_by_gids
    pub api: u8,
    pub cps: Vec<u32>,
    pub gids: Vec<u16>,
}

pub fn check_gen(c: &GenCase) -> Outcome {
    let mut o = Outcome::new();
    if let Err(e) = calibrate_roundtrip(&c.font) {
        harness_broken(format!("generated font does not read back as its model: {e}"));
        return o;
    }
    let bytes = c.font.build();
    let tt = match TtFont::parse(&bytes) {
        Ok(t) => t,
        Err(e) => {
            harness_broken(format!("generated font unreadable: {e:?}"));
            return o;
        }
    };
    let cmap = match reffont::unicode_cmap(&tt.sfnt) {
        Ok(m) => m,
        Err(e) => {
            harness_broken(format!("generated cmap unreadable: {e:?}"));
            return o;
        }
    };
    let (composite, nested) = reffont::composite_sets(&tt);
    let f = &c.font;
    o.label(format!("gen:loca={}", if f.long_loca { "long" } else { "short" }));
    o.label(format!("gen:cmap_kind={}", f.cmap_kind));
    o.label(match bytes.len() {
        0..=99_979 => "gen:file<100000",
        99_980..=99_999 => "gen:file=99980-99999",
        100_000..=100_020 => "gen:file=100000-100020",
        _ => "gen:file>100020",
    });
    o.label(match f.num_glyphs() {
        0..=12 => "gen:glyphs=2-12",
        13..=79 => "gen:glyphs=13-79",
        _ => "gen:glyphs=80-600",
    });
    o.label_if((f.n_hmetrics as usize) < f.num_glyphs(), "gen:hmtx-with-lsb-run");
    o.label_if(!nested.is_empty(), "gen:has-nested-composite");
    let odd_instr = f.glyphs.iter().any(|g| match g {
        GenGlyph::Simple { instr, .. } | GenGlyph::Composite { instr, .. } => instr.len() % 2 == 1,
        _ => false,
    });
    o.label_if(odd_instr, "gen:has-odd-instruction-length");
    let has_xf = f.glyphs.iter().any(|g| matches!(g, GenGlyph::Composite { comps, .. } if comps.iter().any(|c| c.xf != Xf::None)));
    o.label_if(has_xf, "gen:has-transformed-component");
    let has_anchor = f.glyphs.iter().any(|g| matches!(g, GenGlyph::Composite { comps, .. } if comps.iter().any(|c| c.anchor.is_some())));
    o.label_if(has_anchor, "gen:has-point-matching");
    let class = format!("truetype,loca={}", if f.long_loca { "long" } else { "short" });
    let orig = OrigTt { bytes: &bytes, tt: &tt, cmap: &cmap, composite: &composite, nested: &nested, class };
    if c.api == 2 {
        check_tt_gids(&mut o, &orig, &c.gids);
    } else {
        o.label("api=subset_font");
        check_tt_chars(&mut o, &orig, &c.cps);
    }
    let path = o.labels.iter().find(|l| l.starts_with("path=")).cloned().unwrap_or_default();
    o.label(format!("gen:{},{}", if c.api == 2 { "by_gids" } else { "chars" }, path));
    dedup_labels(&mut o);
    o
}

// --- the older glyph-driven subsetter TrueTypeFont::create_subset (used by FontEmbedder and FontManager) ----------

#[derive(Clone, Debug, Serialize, Deserialize)]
pub enum LegacyFont {
    Real(u8),
    Gen(GenFont),
}

#[derive(Clone, Debug, Serialize, Deserialize)]
pub struct LegacyCase {
    pub font: LegacyFont,
    pub cps: Vec<u32>,
}

/// `create_subset` takes the glyph ids its callers derive from the cmap (FontEmbedder::chars_to_glyphs,
/// CustomFont::mark_characters_used) and returns only bytes; the glyph a character resolves to is read from the cmap
/// table the subset itself carries.
fn check_legacy_tt(o: &mut Outcome, orig: &OrigTt, cps: &[u32]) {
    const CLASS: &str = "create_subset";
    let req = to_chars(cps);
    o.label(size_label(req.len()));
    o.label("api=TrueTypeFont::create_subset");
    let gids: HashSet<u16> = req.iter().filter_map(|c| orig.cmap.get(&(*c as u32)).copied()).collect();
    let font = match oxidize_pdf::text::fonts::truetype::TrueTypeFont::parse(orig.bytes.to_vec()) {
        Ok(f) => f,
        Err(e) => {
            o.fail("C12/subset-produced", CLASS, format!("TrueTypeFont::parse returned Err on a valid font: {e}"));
            return;
        }
    };
    let data = match font.create_subset(&gids) {
        Ok(d) => d,
        Err(e) => {
            o.fail("C12/subset-produced", CLASS, format!("create_subset returned Err: {e}"));
            return;
        }
    };
    o.nontrivial(data.len() < orig.bytes.len());
    // glyph 0 is always carried
    let any_comp = gids.iter().chain(std::iter::once(&0u16)).any(|g| orig.composite.contains(g));
    o.nontrivial(any_comp);
    // create_subset truncates code points to u16 when it rebuilds the cmap (recorded finding "…,supplementary"): a kept
    // supplementary code point k shadows the BMP code point k & 0xFFFF
    let shadow: BTreeSet<u32> = orig.cmap.iter().filter(|(k, g)| **k > 0xFFFF && (gids.contains(g) || **g == 0)).map(|(k, _)| k & 0xFFFF).collect();
    let shadowed = |o: &mut Outcome, c: u32, what: String| {
        o.fail("C12/mapping-has-requested", format!("{CLASS},supplementary"), format!("U+{c:04X} collides with a supplementary code point truncated to 16 bits: {what}"));
        o.excluded("C12/outline-equal");
    };
    o.label_if(any_comp, "requested-composite");
    match Sfnt::parse(&data) {
        Ok(sf) => {
            for i in sf.directory_issues() {
                o.fail(&format!("C12/wf-{}", i.clause), CLASS, i.detail);
            }
        }
        Err(i) => {
            o.fail(&format!("C12/wf-{}", i.clause), CLASS, i.detail);
            return;
        }
    }
    let sub = match TtFont::parse(&data) {
        Ok(t) => t,
        Err(i) => {
            o.fail(&format!("C12/wf-{}", i.clause), CLASS, i.detail);
            return;
        }
    };
    // components: carried and renumbered? (decided on the composite glyphs that were requested)
    let mut comp_broken: Option<String> = None;
    for i in sub.glyph_issues() {
        if any_comp && matches!(i.clause, "component-range" | "composite-cycle" | "composite-depth" | "component-point-match") {
            comp_broken.get_or_insert(format!("{}: {}", i.clause, i.detail));
        } else {
            o.fail(&format!("C12/wf-{}", i.clause), CLASS, i.detail);
        }
    }
    let sub_cmap = match reffont::unicode_cmap(&sub.sfnt) {
        Ok(m) => m,
        Err(i) => {
            o.fail("C12/wf-cmap", CLASS, format!("{}: {}", i.clause, i.detail));
            return;
        }
    };
    let mut rq: Vec<u32> = req.iter().map(|&c| c as u32).collect();
    rq.sort();
    for c in rq {
        let Some(&old) = orig.cmap.get(&c) else {
            if let Some(g) = sub_cmap.get(&c) {
                if shadow.contains(&c) {
                    shadowed(o, c, format!("the subset cmap maps it to glyph {g}, the original does not map it"));
                } else {
                    o.fail("C12/mapping-unmapped-absent", CLASS, format!("the subset cmap maps U+{c:04X} → {g}, the original does not map it"));
                }
            }
            continue;
        };
        if shadow.contains(&c) {
            let ok = sub_cmap.get(&c).map(|&new| new < sub.num_glyphs && orig.tt.flatten(old).ok() == sub.flatten(new).ok() && orig.tt.advance(old).ok() == sub.advance(new).ok()).unwrap_or(false);
            if !ok && !orig.composite.contains(&old) {
                shadowed(o, c, format!("original glyph {old}, subset glyph {:?} differs", sub_cmap.get(&c)));
            }
            continue;
        }
        let Some(&new) = sub_cmap.get(&c) else {
            o.fail("C12/mapping-has-requested", format!("{CLASS},{}", if c > 0xFFFF { "supplementary" } else { "bmp" }), format!("U+{c:04X} (original glyph {old}) is not mapped by the subset's cmap"));
            continue;
        };
        if new >= sub.num_glyphs {
            o.fail("C12/mapping-gid-in-range", CLASS, format!("U+{c:04X} → glyph {new}, subset has {} glyphs", sub.num_glyphs));
            continue;
        }
        if orig.composite.contains(&old) {
            let same = match (orig.tt.flatten(old), sub.flatten(new)) {
                (Ok(a), Ok(b)) => a == b,
                (Err(_), _) => true,
                _ => false,
            };
            if !same {
                comp_broken.get_or_insert(format!("U+{c:04X}: composite glyph {old} → subset glyph {new} no longer flattens to the original outline"));
            }
            match (orig.tt.advance(old), sub.advance(new)) {
                (Ok(a), Ok(b)) if a == b => {}
                (a, b) => o.fail("C12/advance-equal", CLASS, format!("U+{c:04X}: advance {a:?} vs {b:?}")),
            }
        } else {
            let mut t = Outcome::new();
            same_glyph(&mut t, orig, &sub, old, new, &format!("U+{c:04X}"));
            for f in t.fails {
                o.fail(&f.clause, CLASS, f.detail);
            }
        }
    }
    if let Some(d) = comp_broken {
        o.fail("C12/components-carried", CLASS, d);
    }
}

pub fn check_legacy(c: &LegacyCase) -> Outcome {
    let mut o = Outcome::new();
    match &c.font {
        LegacyFont::Real(i) => {
            let Ok(rs) = reals() else { return o };
            let Some(r) = rs.get(*i as usize) else { return o };
            let Some(tt) = &r.tt else { return o };
            o.label(format!("font={}", r.name));
            let orig = OrigTt { bytes: r.bytes, tt, cmap: &r.cmap, composite: &r.composite, nested: &r.nested, class: "truetype,loca=long".into() };
            check_legacy_tt(&mut o, &orig, &c.cps);
        }
        LegacyFont::Gen(f) => {
            if let Err(e) = calibrate_roundtrip(f) {
                harness_broken(format!("generated font does not read back as its model: {e}"));
                return o;
            }
            let bytes = f.build();
            let (Ok(tt), Ok(cmap)) = (TtFont::parse(&bytes), Sfnt::parse(&bytes).and_then(|s| reffont::unicode_cmap(&s))) else {
                harness_broken("generated font unreadable".into());
                return o;
            };
            let (composite, nested) = reffont::composite_sets(&tt);
            o.label(format!("gen:loca={}", if f.long_loca { "long" } else { "short" }));
            let orig = OrigTt { bytes: &bytes, tt: &tt, cmap: &cmap, composite: &composite, nested: &nested, class: "truetype".into() };
            check_legacy_tt(&mut o, &orig, &c.cps);
        }
    }
    dedup_labels(&mut o);
    o
}

#[derive(Clone, Debug, Serialize, Deserialize)]
pub struct CffCase {
    pub font: CffSpec,
    /// 0 subset_font · 1 subset_cff_font
    pub api: u8,
    pub cps: Vec<u32>,
}

pub fn check_gencff(c: &CffCase) -> Outcome {
    let mut o = Outcome::new();
    if let Err(e) = build_cff::calibrate_roundtrip(&c.font) {
        harness_broken(format!("generated CFF font does not read back as its model: {e}"));
        return o;
    }
    let bytes = c.font.build();
    let parsed = (|| -> Result<_, reffont::Issue> {
        let sf = Sfnt::parse(&bytes)?;
        let cf = Cff::parse(sf.table(b"CFF ")?)?;
        let hm = HMetrics::parse(&sf)?;
        let adv: Vec<u16> = (0..hm.num_glyphs).map(|g| hm.advance(g)).collect::<Result<_, _>>()?;
        let cm = reffont::unicode_cmap(&sf)?;
        Ok((cf, adv, cm))
    })();
    let (cf, adv, cm) = match parsed {
        Ok(x) => x,
        Err(e) => {
            harness_broken(format!("generated CFF font unreadable: {e:?}"));
            return o;
        }
    };
    let f = &c.font;
    o.label(if f.is_cid() { format!("gencff:cid-keyed,fds={}", f.fd_count()) } else { "gencff:name-keyed".to_string() });
    o.label_if(f.is_cid() && f.fdselect3, "gencff:FDSelect-format3");
    o.label(format!("gencff:global-bias={}", crate::reffont::cff::subr_bias(cf.gsubrs.count)));
    for fd in &cf.fds {
        o.label(format!("gencff:local-bias={}", fd.subrs.as_ref().map(|s| crate::reffont::cff::subr_bias(s.count)).unwrap_or(0)));
    }
    o.label(format!("gencff:font-matrix={}", ["absent", "explicit-default", "1/2048"][f.font_matrix.min(2) as usize]));
    o.label(if bytes.len() < 100_000 { "gencff:file<100000" } else { "gencff:file>=100000" });
    let mut max_depth = 0;
    for g in 0..cf.num_glyphs() {
        if let Ok(r) = cf.run(g) {
            max_depth = max_depth.max(r.max_depth);
            o.label_if(r.masks > 0 && r.subr_calls > 0, "gencff:glyph-with-masks-and-subrs");
        }
    }
    o.label(format!("gencff:max-subr-depth={}", max_depth.min(6)));
    let class = if f.is_cid() { "cff,cid-keyed" } else { "cff,name-keyed" };
    let orig = OrigCff { bytes: &bytes, cff: &cf, advances: &adv, cmap: &cm, class: class.into() };
    check_cff_chars(&mut o, &orig, &c.cps, c.api == 1);
    dedup_labels(&mut o);
    o
}

// ------------------------------------------------------------------------------------------------
// generators
// ------------------------------------------------------------------------------------------------

fn cp_pool() -> impl Strategy<Value = u32> {
    prop_oneof![
        4 => 0x20u32..0x7F,
        3 => 0xA0u32..0x250,
        2 => 0x370u32..0x530,
        1 => 0x2000u32..0x2100,
        1 => 0x4E00u32..0x4F00,
        1 => 0xE000u32..0xE100,
        1 => 0xFFF0u32..0xFFFE,
        1 => 0x10000u32..0x10100,
        1 => 0x1F600u32..0x1F650,
    ]
}

type Pick = (u8, u16, u32);

/// set sizes 0–400, weighted to the subsetting thresholds (0, < 10, 10); no flat_map so that shrinking removes elements
fn picks() -> impl Strategy<Value = Vec<Pick>> {
    let p = || (0u8..10, any::<u16>(), cp_pool());
    prop_oneof![
        1 => prop::collection::vec(p(), 0..=0),
        3 => prop::collection::vec(p(), 1..10),
        1 => prop::collection::vec(p(), 10..=10),
        5 => prop::collection::vec(p(), 11..80),
        4 => prop::collection::vec(p(), 80..=400),
    ]
}

pub fn real_strategy() -> BoxedStrategy<RealCase> {
    let n = reals().as_ref().map(|r| r.len()).unwrap_or(1) as u8;
    (0..n, 0u8..10, picks())
        .prop_map(|(font, apisel, picks)| {
            let r = &reals().as_ref().unwrap()[font as usize];
            let api = if apisel < 3 {
                if r.cff.is_some() {
                    1
                } else {
                    2
                }
            } else {
                0
            };
            let (mut cps, mut gids) = (Vec::new(), Vec::new());
            let ng = r.advances.len();
            for (kind, sel, unc) in picks {
                if api == 2 {
                    gids.push(match kind {
                        0..=4 => pick_idx(sel, ng) as u16,
                        5..=7 if !r.composite_gids.is_empty() => r.composite_gids[pick_idx(sel, r.composite_gids.len())],
                        _ => r.cmap[&r.covered[pick_idx(sel, r.covered.len())]],
                    });
                } else {
                    cps.push(match kind {
                        0..=5 => r.covered[pick_idx(sel, r.covered.len())],
                        6..=7 if !r.covered_composite.is_empty() => r.covered_composite[pick_idx(sel, r.covered_composite.len())],
                        6..=7 => r.covered[pick_idx(sel, r.covered.len())],
                        _ => unc,
                    });
                }
            }
            RealCase { font, api, cps, gids }
        })
        .boxed()
}

fn coord() -> impl Strategy<Value = i16> {
    prop_oneof![6 => -300i16..300, 3 => -2000i16..2000, 1 => -16000i16..16000]
}

fn f2dot14() -> impl Strategy<Value = i16> {
    prop_oneof![2 => Just(0x4000i16), 1 => Just(-0x4000i16), 1 => Just(0x2000i16), 3 => 0x0800i16..0x7FFF, 2 => any::<i16>()]
}

fn instr() -> impl Strategy<Value = Vec<u8>> {
    prop_oneof![3 => Just(Vec::new()), 4 => prop::collection::vec(any::<u8>(), 1..8), 1 => prop::collection::vec(any::<u8>(), 8..41)]
}

fn xf() -> impl Strategy<Value = Xf> {
    prop_oneof![
        5 => Just(Xf::None),
        2 => f2dot14().prop_map(Xf::Scale),
        2 => (f2dot14(), f2dot14()).prop_map(|(a, d)| Xf::XY(a, d)),
        2 => (f2dot14(), f2dot14(), f2dot14(), f2dot14()).prop_map(|(a, b, c, d)| Xf::TwoByTwo(a, b, c, d)),
    ]
}

/// one glyph definition; component targets are selectors resolved against earlier definitions
#[derive(Clone, Debug)]
struct GlyphDef {
    kind: u8,
    contours: Vec<Vec<(i16, i16, bool)>>,
    instr: Vec<u8>,
    compact: bool,
    comps: Vec<(u16, i16, i16, Xf, u16, bool, Option<(u16, u16)>)>,
    /// sort key: the glyph id is the rank of the key
    key: u32,
    metrics: (u16, i16),
}

fn glyph_def() -> impl Strategy<Value = GlyphDef> {
    let contour = prop::collection::vec((coord(), coord(), any::<bool>()), 1..9);
    let comp = (
        any::<u16>(),
        prop_oneof![4 => -120i16..120, 2 => -2000i16..2000],
        prop_oneof![4 => -120i16..120, 2 => -2000i16..2000],
        xf(),
        prop_oneof![4 => Just(0u16), 1 => Just(reffont::USE_MY_METRICS), 1 => Just(reffont::ROUND_XY_TO_GRID | reffont::OVERLAP_COMPOUND), 1 => Just(reffont::UNSCALED_COMPONENT_OFFSET)],
        prop::bool::weighted(0.2),
        prop_oneof![6 => Just(None), 1 => (any::<u16>(), any::<u16>()).prop_map(Some)],
    );
    (
        0u8..10,
        prop::collection::vec(contour, 0..4),
        instr(),
        any::<bool>(),
        prop::collection::vec(comp, 1..5),
        any::<u32>(),
        (prop_oneof![1 => Just(0u16), 8 => 1u16..3000, 1 => any::<u16>()], -600i16..600),
    )
        .prop_map(|(kind, contours, instr, compact, comps, key, metrics)| GlyphDef { kind, contours, instr, compact, comps, key, metrics })
}

#[derive(Clone, Debug)]
enum Target {
    Small,
    Total(u32),
}

/// `steer`: the finding SIG_SHORT_LOCA_ODD is recorded → only ~10 % of the short-loca fonts keep odd instruction lengths
pub fn gen_font(steer: bool) -> BoxedStrategy<GenFont> {
    let defs = prop_oneof![
        4 => prop::collection::vec(glyph_def(), 2..13),
        4 => prop::collection::vec(glyph_def(), 13..80),
        2 => prop::collection::vec(glyph_def(), 80..=600),
    ];
    (
        defs,
        (any::<bool>(), prop_oneof![Just(1u8), Just(2u8), Just(4u8)], prop_oneof![3 => Just(u16::MAX), 2 => any::<u16>()]),
        prop::collection::vec((cp_pool(), 1u32..30, any::<u16>(), any::<bool>()), 0..20),
        (prop_oneof![4 => Just(0u8), 2 => Just(1u8), 1 => Just(2u8), 1 => Just(3u8), 1 => Just(4u8), 1 => Just(5u8)], any::<bool>()),
        prop_oneof![3 => Just(Target::Small), 5 => (100_021u32..140_000).prop_map(Target::Total), 2 => (99_980u32..=100_020).prop_map(Target::Total)],
        prop_oneof![1 => Just(1000u16), 1 => Just(2048u16), 1 => 16u16..16384],
        prop::bool::weighted(0.35),
    )
    .prop_map(move |(defs, (long_loca, align, nh_sel), runs, (cmap_kind, fmt4_glyph_array), target, upem, odd_ok)| {
        let keys: Vec<u32> = defs.iter().map(|d| d.key).collect();
        let metrics: Vec<(u16, i16)> = defs.iter().map(|d| d.metrics).collect();
        let n = defs.len();
        // gid of definition j = rank of keys[j] (a permutation); components point at earlier definitions only → acyclic
        let mut order: Vec<usize> = (0..n).collect();
        order.sort_by_key(|&j| (keys[j], j));
        let mut gid_of = vec![0u16; n];
        for (gid, &j) in order.iter().enumerate() {
            gid_of[j] = gid as u16;
        }
        let mut glyphs = vec![GenGlyph::Empty; n];
        for (j, d) in defs.into_iter().enumerate() {
            let g = match d.kind {
                0 => GenGlyph::Empty,
                1..=5 => GenGlyph::Simple { contours: d.contours, instr: d.instr, compact: d.compact },
                _ if j == 0 => GenGlyph::Simple { contours: d.contours, instr: d.instr, compact: d.compact },
                _ => GenGlyph::Composite {
                    comps: d.comps.into_iter().map(|(sel, dx, dy, xf, extra_flags, force_words, anchor)| GenComp { gid: gid_of[pick_idx(sel, j)], dx, dy, xf, extra_flags, force_words, anchor }).collect(),
                    instr: d.instr,
                },
            };
            glyphs[gid_of[j] as usize] = g;
        }
        let mut by_gid = vec![(0u16, 0i16); n];
        for j in 0..n {
            by_gid[gid_of[j] as usize] = metrics[j];
        }
        let metrics = by_gid;
        let n_hmetrics = if nh_sel == u16::MAX { n as u16 } else { 1 + pick_idx(nh_sel, n) as u16 };
        let mut cm: BTreeMap<u32, u16> = BTreeMap::new();
        for (start, len, sel, consecutive) in runs {
            let g0 = pick_idx(sel, n - 1);
            for k in 0..len {
                let cp = start + k;
                if cp >= 0xFFFF && cp < 0x10000 || char::from_u32(cp).is_none() {
                    continue;
                }
                let g = 1 + (g0 + if consecutive { k as usize } else { k as usize * 7919 }) % (n - 1);
                cm.entry(cp).or_insert(g as u16);
            }
        }
        let mut f = GenFont { upem, long_loca, align, glyphs, metrics, n_hmetrics, cmap: cm.into_iter().collect(), cmap_kind, fmt4_glyph_array, pad: 0 };
        // short loca addresses at most 0x1FFFE bytes of glyf
        let glyf_estimate: usize = f
            .glyphs
            .iter()
            .map(|g| match g {
                GenGlyph::Empty => 0,
                GenGlyph::Simple { contours, instr, .. } => 16 + 2 * contours.len() + instr.len() + 5 * contours.iter().map(|c| c.len()).sum::<usize>(),
                GenGlyph::Composite { comps, instr } => 16 + 16 * comps.len() + instr.len(),
            })
            .sum();
        if glyf_estimate > 0x1F000 {
            f.long_loca = true;
        }
        if steer && !f.long_loca && !odd_ok {
            for g in f.glyphs.iter_mut() {
                if let GenGlyph::Simple { instr, .. } | GenGlyph::Composite { instr, .. } = g {
                    if instr.len() % 2 == 1 {
                        instr.pop();
                    }
                }
            }
        }
        if let Target::Total(t) = target {
            let base = f.build().len() as u32;
            if t > base + 16 {
                f.pad = t - base - 16;
            }
        }
        f
    })
    .boxed()
}

pub fn gen_strategy(steer: bool) -> BoxedStrategy<GenCase> {
    (gen_font(steer), 0u8..10, picks())
        .prop_map(|(font, apisel, picks)| {
            let api = if apisel < 3 { 2 } else { 0 };
            let n = font.num_glyphs();
            let comp_gids: Vec<u16> = font.glyphs.iter().enumerate().filter(|(_, g)| matches!(g, GenGlyph::Composite { .. })).map(|(i, _)| i as u16).collect();
            let comp_cps: Vec<u32> = font.cmap.iter().filter(|(_, g)| comp_gids.contains(g)).map(|(c, _)| *c).collect();
            let (mut cps, mut gids) = (Vec::new(), Vec::new());
            for (kind, sel, unc) in picks {
                if api == 2 {
                    gids.push(match kind {
                        0..=4 => pick_idx(sel, n) as u16,
                        _ if !comp_gids.is_empty() => comp_gids[pick_idx(sel, comp_gids.len())],
                        _ => pick_idx(sel, n) as u16,
                    });
                } else {
                    cps.push(match kind {
                        0..=4 if !font.cmap.is_empty() => font.cmap[pick_idx(sel, font.cmap.len())].0,
                        5..=7 if !comp_cps.is_empty() => comp_cps[pick_idx(sel, comp_cps.len())],
                        _ => unc,
                    });
                }
            }
            GenCase { font, api, cps, gids }
        })
        .boxed()
}

pub fn legacy_strategy() -> BoxedStrategy<LegacyCase> {
    let real = real_strategy().prop_filter_map("TrueType fonts only", |c| {
        let r = &reals().as_ref().unwrap()[c.font as usize];
        if r.tt.is_some() && c.api == 0 {
            Some(LegacyCase { font: LegacyFont::Real(c.font), cps: c.cps })
        } else {
            None
        }
    });
    let gen = gen_strategy(false).prop_filter_map("char-driven cases", |c| if c.api == 0 { Some(LegacyCase { font: LegacyFont::Gen(c.font), cps: c.cps }) } else { None });
    prop_oneof![real, gen].boxed()
}

fn fixed() -> impl Strategy<Value = i32> {
    prop_oneof![
        3 => Just(0i32),
        6 => (-300i32..300).prop_map(|v| v * 65536),
        2 => (-2000i32..2000).prop_map(|v| v * 65536),
        1 => -300 * 65536i32..300 * 65536,
    ]
}

fn seg_spec() -> impl Strategy<Value = SegSpec> {
    prop_oneof![
        4 => (fixed(), fixed()).prop_map(|(a, b)| SegSpec::Line(a, b)),
        4 => prop::array::uniform6(fixed()).prop_map(SegSpec::Curve),
        1 => prop::array::uniform7(fixed()).prop_map(SegSpec::HFlex),
        1 => prop::array::uniform13(fixed()).prop_map(SegSpec::Flex),
        1 => prop::array::uniform9(fixed()).prop_map(SegSpec::HFlex1),
        1 => prop::array::uniform11(fixed()).prop_map(SegSpec::Flex1),
        3 => any::<u16>().prop_map(SegSpec::Shared),
    ]
}

fn glyph_spec() -> impl Strategy<Value = GlyphSpec> {
    let subpath = ((fixed(), fixed()), prop::collection::vec(seg_spec(), 0..8), prop::option::weighted(0.4, any::<u16>()), prop::bool::weighted(0.2))
        .prop_map(|(mv, segs, mask_before, cntr)| SubpathSpec { mv, segs, mask_before, cntr });
    let wrap = (any::<u16>(), 1u8..5, any::<bool>(), 0u8..3, any::<u16>()).prop_map(|(start, len, global, style, split)| WrapSpec { start, len, global, style, split });
    (
        prop::option::weighted(0.7, 0u16..3000),
        prop::collection::vec((fixed(), fixed()), 0..5),
        prop::collection::vec((fixed(), fixed()), 0..5),
        any::<bool>(),
        any::<bool>(),
        prop::collection::vec(subpath, 0..4),
        any::<u8>(),
        prop::collection::vec(wrap, 0..4),
        any::<u32>(),
    )
        .prop_map(|(width, hstems, vstems, hm, implicit_v, subpaths, fd, wraps, enc_seed)| GlyphSpec { width, hstems, vstems, hm, implicit_v, subpaths, fd, wraps, enc_seed })
}

pub const SIG_FONT_MATRIX: &str = "C12/outline-scale-kept|cff,FontMatrix != default";

/// `steer`: SIG_FONT_MATRIX is recorded → a non-default FontMatrix in ~10 % of the fonts only
pub fn cff_spec(steer: bool) -> BoxedStrategy<CffSpec> {
    let fill = || prop_oneof![5 => Just(0u16), 2 => 1u16..60, 1 => Just(1239u16), 1 => Just(1240u16), 1 => Just(1241u16), 1 => 1242u16..1300];
    let glyphs = prop_oneof![6 => prop::collection::vec(glyph_spec(), 2..30), 2 => prop::collection::vec(glyph_spec(), 30..200)];
    let shared = prop::collection::vec((prop::collection::vec(seg_spec(), 1..5), any::<bool>()).prop_map(|(segs, global)| SharedSpec { segs, global }), 0..10);
    (
        glyphs,
        shared,
        (0u16..2000, -200i16..800),
        (fill(), prop::collection::vec(fill(), 3..=3), any::<bool>()),
        (prop_oneof![5 => Just(0u8), 1 => Just(1u8), 2 => Just(2u8), 1 => Just(3u8)], any::<bool>(), 1u8..5),
        prop_oneof![6 => Just(0u8), 2 => Just(1u8), if steer { 1 } else { 3 } => Just(2u8)],
        prop::collection::vec((cp_pool(), 1u32..30, any::<u16>(), any::<bool>()), 0..12),
        prop_oneof![3 => Just(0u8), 3 => Just(1u8), 1 => Just(2u8), 2 => Just(3u8), 1 => Just(4u8), 1 => Just(5u8)],
        prop_oneof![5 => Just(Target::Small), 5 => (100_021u32..120_000).prop_map(Target::Total)],
    )
        .prop_map(|(glyphs, shared, (default_width, nominal_width), (gsubr_fill, lsubr_fill, fill_first), (n_fds, fdselect3, cid_step), font_matrix, runs, cmap_kind, target)| {
            let n = glyphs.len();
            let mut cm: BTreeMap<u32, u16> = BTreeMap::new();
            for (start, len, sel, consecutive) in runs {
                let g0 = pick_idx(sel, n - 1);
                for k in 0..len {
                    let cp = start + k;
                    if cp >= 0xFFFF && cp < 0x10000 || char::from_u32(cp).is_none() {
                        continue;
                    }
                    let g = 1 + (g0 + if consecutive { k as usize } else { k as usize * 7919 }) % (n - 1);
                    cm.entry(cp).or_insert(g as u16);
                }
            }
            let mut f = CffSpec { glyphs, shared, default_width, nominal_width, gsubr_fill, lsubr_fill, fill_first, n_fds, fdselect3, cid_step, font_matrix, cmap: cm.into_iter().collect(), cmap_kind, pad: 0 };
            if let Target::Total(t) = target {
                let base = f.build().len() as u32;
                if t > base + 16 {
                    f.pad = t - base - 16;
                }
            }
            f
        })
        .boxed()
}

pub fn gencff_strategy(steer: bool) -> BoxedStrategy<CffCase> {
    (cff_spec(steer), 0u8..10, picks())
        .prop_map(|(font, apisel, picks)| {
            let api = if apisel < 5 { 1 } else { 0 };
            let mut cps = Vec::new();
            for (kind, sel, unc) in picks {
                cps.push(match kind {
                    0..=7 if !font.cmap.is_empty() => font.cmap[pick_idx(sel, font.cmap.len())].0,
                    _ => unc,
                });
            }
            CffCase { font, api, cps }
        })
        .boxed()
}

// ------------------------------------------------------------------------------------------------
// run / replay
// ------------------------------------------------------------------------------------------------

fn run(ctx: &Ctx) {
    match reals() {
        Ok(rs) => {
            let mut cal = serde_json::Map::new();
            for r in rs {
                cal.insert(r.name.to_string(), r.calibration.clone());
            }
            ctx.extra("reffont_calibration", Value::Object(cal));
        }
        Err(e) => {
            eprintln!("[C12] calibration of reffont failed: {e}");
            std::process::exit(2);
        }
    }
    // development aid: VERIF_C12_SUBS=real,gen,… restricts the run to some sub-checks (never set by the suite)
    let only: Option<Vec<String>> = std::env::var("VERIF_C12_SUBS").ok().map(|v| v.split(',').map(|s| s.trim().to_string()).collect());
    let on = |s: &str| only.as_ref().map(|v| v.iter().any(|x| x == s)).unwrap_or(true);
    if on("real") {
        ctx.run_sub("real", ctx.tier.pick(2_400, 40_000), real_strategy, check_real);
    }
    let steer = ctx.known_sig(SIG_SHORT_LOCA_ODD);
    if on("gen") {
        ctx.run_sub("gen", ctx.tier.pick(2_400, 40_000), || gen_strategy(steer), check_gen);
    }
    if on("legacy") {
        ctx.run_sub("legacy", ctx.tier.pick(800, 12_000), legacy_strategy, check_legacy);
    }
    let steer_fm = ctx.known_sig(SIG_FONT_MATRIX);
    if on("gencff") {
        ctx.run_sub("gencff", ctx.tier.pick(1_600, 30_000), || gencff_strategy(steer_fm), check_gencff);
    }
    if HARNESS_BROKEN.load(Ordering::SeqCst) {
        eprintln!("[C12] harness calibration failed during the run: {:?}", HARNESS_MSG.lock().unwrap());
        std::process::exit(2);
    }
}

fn replay(ctx: &Ctx, sub: &str, case: &Value) -> Result<Outcome, String> {
    if let Err(e) = reals() {
        return Err(format!("calibration failed: {e}"));
    }
    let r = match sub.trim_start_matches("replay:") {
        "real" => ctx.replay_case::<RealCase, _>(case, check_real),
        "gen" => ctx.replay_case::<GenCase, _>(case, check_gen),
        "gencff" => ctx.replay_case::<CffCase, _>(case, check_gencff),
        "legacy" => ctx.replay_case::<LegacyCase, _>(case, check_legacy),
        s => Err(format!("unknown sub-check {s}")),
    };
    if HARNESS_BROKEN.load(Ordering::SeqCst) {
        return Err(format!("harness calibration failed: {:?}", HARNESS_MSG.lock().unwrap()));
    }
    r
}
