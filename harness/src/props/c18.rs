//! C18 — page-tree navigation follows document order and inheritance.
use crate::engine::isolate::{Pool, WorkerResult};
use crate::engine::{Ctx, Outcome, PropertyDef};
use crate::refpdf::synth::{dict, stream, Builder};
use crate::refpdf::{Dict, Obj};
use oxidize_pdf::parser::{ParseOptions, PdfReader};
use proptest::prelude::*;
use serde::{Deserialize, Serialize};
use serde_json::Value;
use std::sync::OnceLock;

pub fn def() -> PropertyDef {
    PropertyDef {
        id: "C18",
        level: "exploration",
        rule: "synthesized page trees: depth ≤ 6, fan-out ≤ 5, ≤ 60 leaves, /Kids direct or an indirect array, /Type present or absent on intermediate nodes, inheritable /Resources /MediaBox /CropBox /Rotate at random levels (root always supplies /MediaBox), pages overriding; sub `malformed`: the same trees with a wrong /Count (too small/large/negative), a shared kid, a kid that is its own ancestor, or lying /Parent. Every file is navigated in an isolated worker process (page_count, get_page(i) for all i, get_page(n)). Oracle for well-formed trees: reference DFS with nearest-ancestor-wins attributes; for malformed trees a validity predicate (error, or leaves of the tree in non-decreasing DFS order; never a crash or hang). Non-trivial: depth ≥ 3 and some attribute inherited from a non-parent ancestor; distinct by hash of the tree.",
        assumptions: &[
            "rotations are drawn from {0, 90, 180, 270} so that normalisation cannot blur the comparison",
            "termination budget per file: 20 s in an idle worker (normal cost < 10 ms); a timeout is re-run once before it counts",
        ],
        trusted_base: &["refpdf synthesizer", "30-line reference DFS with inherited attributes"],
        run,
        replay,
    }
}

#[derive(Clone, Debug, Serialize, Deserialize, Default, PartialEq)]
pub struct Attrs {
    pub media_box: Option<[i32; 4]>,
    pub crop_box: Option<[i32; 4]>,
    pub rotate: Option<i32>,
    pub resources: Option<u8>,
}

#[derive(Clone, Debug, Serialize, Deserialize)]
pub enum Node {
    Pages { kids: Vec<Node>, attrs: Attrs, kids_indirect: bool, typed: bool },
    Page { attrs: Attrs },
}

#[derive(Clone, Debug, Serialize, Deserialize)]
pub enum Mal {
    None,
    CountDelta(i32),
    CountNegative,
    SharedKid { from: u16, into: u16 },
    Cycle { node: u16, ancestor_of: u16 },
    ParentLies,
}

#[derive(Clone, Debug, Serialize, Deserialize)]
pub struct Case {
    pub root: Node,
    pub mal: Mal,
    pub preset: u8,
}

#[derive(Clone, Debug, PartialEq, Serialize, Deserialize)]
pub struct Leaf {
    pub obj: u32,
    pub media_box: [f64; 4],
    pub crop_box: Option<[f64; 4]>,
    pub rotate: i32,
    pub resources: Option<u8>,
}

struct Built {
    bytes: Vec<u8>,
    leaves: Vec<Leaf>,
    depth: u32,
    inherited_far: bool,
    indirect_kids: bool,
    pages_nodes: Vec<u32>,
    applied: bool,
}

fn fbox(b: [i32; 4]) -> [f64; 4] {
    [b[0] as f64, b[1] as f64, (b[0] + b[2].max(1)) as f64, (b[1] + b[3].max(1)) as f64]
}

fn box_obj(b: [i32; 4]) -> Obj {
    let f = fbox(b);
    Obj::Arr(f.iter().map(|x| Obj::Int(*x as i64)).collect())
}

struct Walk<'a> {
    b: &'a mut Builder,
    next: u32,
    leaves: Vec<Leaf>,
    depth: u32,
    inherited_far: bool,
    indirect_kids: bool,
    pages_nodes: Vec<u32>,
    page_objs: Vec<u32>,
    /// (node object number, dict) collected so malformations can edit before emission
    nodes: Vec<(u32, Dict)>,
    parent_of: std::collections::BTreeMap<u32, u32>,
}

const FONT_OBJ: u32 = 2;

impl<'a> Walk<'a> {
    fn alloc(&mut self) -> u32 {
        let n = self.next;
        self.next += 1;
        n
    }

    /// returns (object number, leaf count)
    fn node(&mut self, n: &Node, parent: Option<u32>, inh: &[(Attrs, u32)], depth: u32) -> (u32, i64) {
        self.depth = self.depth.max(depth);
        let me = self.alloc();
        if let Some(p) = parent {
            self.parent_of.insert(me, p);
        }
        let attrs = match n {
            Node::Pages { attrs, .. } => attrs,
            Node::Page { attrs } => attrs,
        };
        let mut d = Dict::new();
        let mut chain: Vec<(Attrs, u32)> = inh.to_vec();
        chain.push((attrs.clone(), depth));
        if let Some(m) = attrs.media_box {
            d.set(b"MediaBox", box_obj(m));
        }
        if let Some(c) = attrs.crop_box {
            d.set(b"CropBox", box_obj(c));
        }
        if let Some(r) = attrs.rotate {
            d.set(b"Rotate", Obj::Int(r as i64));
        }
        if let Some(k) = attrs.resources {
            d.set(b"Resources", Obj::Dict(dict(vec![("Font", Obj::Dict(Dict(vec![(format!("F{k}").into_bytes(), Obj::Ref(FONT_OBJ, 0))])))])));
        }
        if let Some(p) = parent {
            d.set(b"Parent", Obj::Ref(p, 0));
        }
        match n {
            Node::Page { .. } => {
                d.set(b"Type", Obj::name("Page"));
                let c = self.alloc();
                let marker = format!("BT /F1 12 Tf (p{me}) Tj ET");
                self.b.add_object(c, 0, &stream(Dict::new(), marker.into_bytes()));
                d.set(b"Contents", Obj::Ref(c, 0));
                // resolve inherited
                let pick = |f: &dyn Fn(&Attrs) -> bool| chain.iter().rev().find(|(a, _)| f(a)).map(|(a, dep)| (a.clone(), *dep));
                let mb = pick(&|a| a.media_box.is_some());
                let cb = pick(&|a| a.crop_box.is_some());
                let ro = pick(&|a| a.rotate.is_some());
                let rs = pick(&|a| a.resources.is_some());
                for x in [&mb, &cb, &ro, &rs].into_iter().flatten() {
                    if depth >= 2 && x.1 + 2 <= depth {
                        self.inherited_far = true;
                    }
                }
                self.leaves.push(Leaf {
                    obj: me,
                    media_box: fbox(mb.and_then(|x| x.0.media_box).unwrap_or([0, 0, 612, 792])),
                    crop_box: cb.and_then(|x| x.0.crop_box).map(fbox),
                    rotate: ro.and_then(|x| x.0.rotate).unwrap_or(0),
                    resources: rs.and_then(|x| x.0.resources),
                });
                self.page_objs.push(me);
                self.nodes.push((me, d));
                (me, 1)
            }
            Node::Pages { kids, kids_indirect, typed, .. } => {
                if *typed || parent.is_none() {
                    d.set(b"Type", Obj::name("Pages"));
                }
                self.pages_nodes.push(me);
                let mut refs = Vec::new();
                let mut count = 0;
                for k in kids {
                    let (kn, kc) = self.node(k, Some(me), &chain, depth + 1);
                    refs.push(Obj::Ref(kn, 0));
                    count += kc;
                }
                if *kids_indirect {
                    self.indirect_kids = true;
                    let a = self.alloc();
                    self.b.add_object(a, 0, &Obj::Arr(refs));
                    d.set(b"Kids", Obj::Ref(a, 0));
                } else {
                    d.set(b"Kids", Obj::Arr(refs));
                }
                d.set(b"Count", Obj::Int(count));
                self.nodes.push((me, d));
                (me, count)
            }
        }
    }
}

fn build(c: &Case) -> Built {
    let mut b = Builder::new("1.7");
    b.add_object(FONT_OBJ, 0, &Obj::Dict(dict(vec![("Type", Obj::name("Font")), ("Subtype", Obj::name("Type1")), ("BaseFont", Obj::name("Helvetica"))])));
    let mut w = Walk {
        b: &mut b,
        next: 3,
        leaves: vec![],
        depth: 0,
        inherited_far: false,
        indirect_kids: false,
        pages_nodes: vec![],
        page_objs: vec![],
        nodes: vec![],
        parent_of: Default::default(),
    };
    let (root, _) = w.node(&c.root, None, &[], 0);
    let mut nodes = std::mem::take(&mut w.nodes);
    let leaves = std::mem::take(&mut w.leaves);
    let (depth, inherited_far, indirect_kids) = (w.depth, w.inherited_far, w.indirect_kids);
    let pages_nodes = w.pages_nodes.clone();
    let page_objs = w.page_objs.clone();
    let parent_of = w.parent_of.clone();
    drop(w);
    let mut applied = false;
    let find = |nodes: &mut Vec<(u32, Dict)>, n: u32| nodes.iter().position(|x| x.0 == n);
    match &c.mal {
        Mal::None => {}
        Mal::CountDelta(dl) => {
            if let Some(i) = find(&mut nodes, root) {
                let cur = nodes[i].1.int(b"Count").unwrap_or(0);
                if *dl != 0 {
                    nodes[i].1.set(b"Count", Obj::Int((cur + *dl as i64).max(0)));
                    applied = true;
                }
            }
        }
        Mal::CountNegative => {
            if let Some(i) = find(&mut nodes, root) {
                nodes[i].1.set(b"Count", Obj::Int(-3));
                applied = true;
            }
        }
        Mal::SharedKid { from, into } => {
            if !page_objs.is_empty() && !pages_nodes.is_empty() {
                let p = page_objs[crate::engine::pick_idx(*from, page_objs.len())];
                let t = pages_nodes[crate::engine::pick_idx(*into, pages_nodes.len())];
                if let Some(i) = find(&mut nodes, t) {
                    if let Some(Obj::Arr(a)) = nodes[i].1.get(b"Kids").cloned() {
                        let mut a = a;
                        a.push(Obj::Ref(p, 0));
                        nodes[i].1.set(b"Kids", Obj::Arr(a));
                        applied = true;
                    }
                }
            }
        }
        Mal::Cycle { node, ancestor_of } => {
            // make an ancestor a kid of one of its descendants
            if pages_nodes.len() >= 2 {
                let desc = pages_nodes[1 + crate::engine::pick_idx(*node, pages_nodes.len() - 1)];
                // collect ancestors of desc
                let mut anc = vec![];
                let mut cur = desc;
                while let Some(p) = parent_of.get(&cur) {
                    anc.push(*p);
                    cur = *p;
                }
                if !anc.is_empty() {
                    let a = anc[crate::engine::pick_idx(*ancestor_of, anc.len())];
                    if let Some(i) = find(&mut nodes, desc) {
                        if let Some(Obj::Arr(k)) = nodes[i].1.get(b"Kids").cloned() {
                            let mut k = k;
                            k.push(Obj::Ref(a, 0));
                            nodes[i].1.set(b"Kids", Obj::Arr(k));
                            applied = true;
                        }
                    }
                }
            }
        }
        Mal::ParentLies => {
            for (n, d) in nodes.iter_mut() {
                if *n != root && d.get(b"Parent").is_some() {
                    d.set(b"Parent", Obj::Ref(root, 0));
                    applied = true;
                }
            }
        }
    }
    for (n, d) in &nodes {
        b.add_object(*n, 0, &Obj::Dict(d.clone()));
    }
    b.add_object(1, 0, &Obj::Dict(dict(vec![("Type", Obj::name("Catalog")), ("Pages", Obj::Ref(root, 0))])));
    b.finish_classic(&dict(vec![("Root", Obj::Ref(1, 0))]));
    Built { bytes: b.out, leaves, depth, inherited_far, indirect_kids, pages_nodes, applied }
}

fn preset(i: u8) -> (&'static str, ParseOptions) {
    match i % 4 {
        0 => ("strict", ParseOptions::strict()),
        1 => ("default", ParseOptions::default()),
        2 => ("tolerant", ParseOptions::tolerant()),
        _ => ("skip_errors", ParseOptions::skip_errors()),
    }
}

#[derive(Serialize, Deserialize, Debug)]
pub struct Nav {
    pub open_err: Option<String>,
    pub count: Option<u32>,
    pub count_err: Option<String>,
    pub pages: Vec<Result<Leaf, String>>,
    pub beyond: Option<bool>, // get_page(count) returned Ok?
    pub content_markers: Vec<Option<String>>,
}

/// Worker side: navigate the file.
pub fn worker(payload: &[u8]) -> Vec<u8> {
    let (p, bytes) = (payload[0], &payload[1..]);
    let mut nav = Nav { open_err: None, count: None, count_err: None, pages: vec![], beyond: None, content_markers: vec![] };
    match PdfReader::new_with_options(std::io::Cursor::new(bytes.to_vec()), preset(p).1) {
        Err(e) => nav.open_err = Some(e.to_string()),
        Ok(rd) => {
            let doc = rd.into_document();
            match doc.page_count() {
                Err(e) => nav.count_err = Some(e.to_string()),
                Ok(n) => {
                    nav.count = Some(n);
                    for i in 0..n.min(200) {
                        match doc.get_page(i) {
                            Err(e) => {
                                nav.pages.push(Err(e.to_string()));
                                nav.content_markers.push(None);
                            }
                            Ok(pg) => {
                                let res = pg.get_resources().and_then(|r| r.get("Font")).and_then(|f| f.as_dict()).and_then(|f| {
                                    f.0.keys().filter_map(|k| k.as_str().strip_prefix('F').and_then(|x| x.parse::<u8>().ok())).next()
                                });
                                let marker = doc.get_page_content_streams(&pg).ok().and_then(|v| v.into_iter().next()).map(|b| String::from_utf8_lossy(&b).into_owned());
                                nav.content_markers.push(marker);
                                nav.pages.push(Ok(Leaf { obj: pg.obj_ref.0, media_box: pg.media_box, crop_box: pg.crop_box, rotate: pg.rotation, resources: res }));
                            }
                        }
                    }
                    nav.beyond = Some(doc.get_page(n).is_ok());
                }
            }
        }
    }
    serde_json::to_vec(&nav).unwrap()
}

fn pool() -> &'static Pool {
    static P: OnceLock<Pool> = OnceLock::new();
    P.get_or_init(|| Pool::new(crate::engine::threads(), 4 << 30))
}

pub fn check(c: &Case) -> Outcome {
    let mut o = Outcome::new();
    let built = build(c);
    crate::engine::isolate::dump("c18.pdf", &built.bytes);
    let malformed = !matches!(c.mal, Mal::None) && built.applied;
    let pname = preset(c.preset).0;
    o.label(format!("preset={pname}"));
    o.label_if(built.indirect_kids, "indirect-kids");
    o.label_if(built.depth >= 3, "depth>=3");
    o.label_if(built.inherited_far, "inherited-from-non-parent");
    if malformed {
        o.label(match c.mal {
            Mal::CountDelta(d) if d < 0 => "mal:count-too-small",
            Mal::CountDelta(_) => "mal:count-too-large",
            Mal::CountNegative => "mal:count-negative",
            Mal::SharedKid { .. } => "mal:shared-kid",
            Mal::Cycle { .. } => "mal:cycle",
            Mal::ParentLies => "mal:parent-lies",
            Mal::None => "",
        });
    }
    o.nontrivial((built.depth >= 3 && built.inherited_far) || malformed);
    let mut payload = vec![c.preset];
    payload.extend_from_slice(&built.bytes);
    let mut res = pool().run("c18", &payload, std::time::Duration::from_secs(20));
    if matches!(res, WorkerResult::Timeout) {
        res = pool().run("c18", &payload, std::time::Duration::from_secs(60));
        if !matches!(res, WorkerResult::Timeout) {
            o.label("timeout-did-not-reproduce");
        }
    }
    let class_mal = |m: &Mal| match m {
        Mal::None => "well-formed",
        Mal::CountDelta(_) | Mal::CountNegative => "wrong-count",
        Mal::SharedKid { .. } => "shared-kid",
        Mal::Cycle { .. } => "cycle",
        Mal::ParentLies => "parent-lies",
    };
    let nav: Nav = match res {
        WorkerResult::Done(b) => match serde_json::from_slice(&b) {
            Ok(n) => n,
            Err(e) => {
                o.fail("HARNESS/worker-reply", "decode", format!("{e}"));
                return o;
            }
        },
        WorkerResult::Panic(msg, loc) => {
            o.fail("C18/no-panic", crate::engine::panic_class(&msg, &loc), format!("{} tree, preset {pname}: panic {msg} at {loc}", class_mal(&c.mal)));
            return o;
        }
        WorkerResult::Died { signal, stderr } => {
            let kind = if stderr.contains("overflowed its stack") { "stack-overflow" } else if stderr.contains("memory allocation") { "alloc-failure" } else { "signal" };
            o.fail("C18/no-crash", format!("{kind},{}", class_mal(&c.mal)), format!("worker died with signal {signal}: {stderr}"));
            return o;
        }
        WorkerResult::Timeout => {
            o.fail("C18/terminates", class_mal(&c.mal), format!("navigation did not finish within 20 s and again within 60 s (preset {pname})"));
            return o;
        }
    };
    if !malformed {
        let cls = |what: &str| format!("{what},well-formed");
        if let Some(e) = &nav.open_err {
            o.fail("C18/opens", cls("open"), format!("preset {pname}: {e}"));
            return o;
        }
        let Some(n) = nav.count else {
            o.fail("C18/page-count", cls("count-error"), format!("preset {pname}: {:?}", nav.count_err));
            return o;
        };
        if n as usize != built.leaves.len() {
            o.fail("C18/page-count", cls("count"), format!("preset {pname}: page_count {n}, document order has {} leaves", built.leaves.len()));
            return o;
        }
        for (i, exp) in built.leaves.iter().enumerate().take(200) {
            match &nav.pages[i] {
                Err(e) => o.fail("C18/get-page", cls("error"), format!("preset {pname}: get_page({i}) failed: {e}")),
                Ok(got) => {
                    if got.obj != exp.obj {
                        o.fail("C18/document-order", cls("identity"), format!("preset {pname}: get_page({i}) is object {}, DFS order says {}", got.obj, exp.obj));
                        continue;
                    }
                    let m = nav.content_markers[i].clone().unwrap_or_default();
                    if !m.contains(&format!("(p{})", exp.obj)) {
                        o.fail("C18/document-order", cls("content"), format!("preset {pname}: page {i} content {m:?} lacks marker p{}", exp.obj));
                    }
                    let close = |a: &[f64; 4], b: &[f64; 4]| a.iter().zip(b).all(|(x, y)| (x - y).abs() < 1e-6);
                    if !close(&got.media_box, &exp.media_box) {
                        o.fail("C18/inheritance", cls("MediaBox"), format!("preset {pname}: page {i}: MediaBox {:?}, nearest ancestor sets {:?}", got.media_box, exp.media_box));
                    }
                    match (&got.crop_box, &exp.crop_box) {
                        (None, None) => {}
                        (Some(a), Some(b)) if close(a, b) => {}
                        (a, b) => o.fail("C18/inheritance", cls("CropBox"), format!("preset {pname}: page {i}: CropBox {a:?}, nearest ancestor sets {b:?}")),
                    }
                    if got.rotate != exp.rotate {
                        o.fail("C18/inheritance", cls("Rotate"), format!("preset {pname}: page {i}: Rotate {}, nearest ancestor sets {}", got.rotate, exp.rotate));
                    }
                    if got.resources != exp.resources {
                        o.fail("C18/inheritance", cls("Resources"), format!("preset {pname}: page {i}: resources font F{:?}, nearest ancestor sets F{:?}", got.resources, exp.resources));
                    }
                }
            }
        }
        if nav.beyond == Some(true) {
            o.fail("C18/get-page-out-of-range-errors", cls("beyond"), format!("preset {pname}: get_page({n}) succeeded"));
        }
    } else {
        // validity predicate: whatever pages are returned are leaves of the tree in non-decreasing DFS order
        let order: std::collections::BTreeMap<u32, usize> = built.leaves.iter().enumerate().map(|(i, l)| (l.obj, i)).collect();
        let mut last = 0usize;
        for (i, p) in nav.pages.iter().enumerate() {
            if let Ok(l) = p {
                match order.get(&l.obj) {
                    None => o.fail("C18/malformed-yields-only-tree-pages", class_mal(&c.mal), format!("preset {pname}: get_page({i}) returned object {} which is not a leaf of the tree", l.obj)),
                    Some(pos) => {
                        // the traversal order is only well defined when the tree shape is intact
                        // (wrong /Count, lying /Parent); shared or cyclic kids legitimately repeat pages
                        let shape_intact = matches!(c.mal, Mal::CountDelta(_) | Mal::CountNegative | Mal::ParentLies);
                        if shape_intact && *pos < last {
                            o.fail("C18/malformed-keeps-document-order", class_mal(&c.mal), format!("preset {pname}: get_page({i}) is leaf #{pos} after leaf #{last}"));
                        }
                        last = (*pos).max(last);
                    }
                }
            }
        }
        let _ = &built.pages_nodes;
    }
    o
}

fn attrs(root: bool) -> impl Strategy<Value = Attrs> {
    let bx = (-50i32..50, -50i32..50, 100i32..700, 100i32..900).prop_map(|(a, b, c, d)| [a, b, c, d]);
    (bx.clone(), prop::bool::weighted(0.3), prop::option::weighted(0.25, bx), prop::option::weighted(0.3, prop::sample::select(vec![0, 90, 180, 270])), prop::option::weighted(0.3, 0u8..9))
        .prop_map(move |(mb, has_mb, crop_box, rotate, resources)| Attrs { media_box: if root || has_mb { Some(mb) } else { None }, crop_box, rotate, resources })
}

fn tree() -> impl Strategy<Value = Node> {
    let leaf = attrs(false).prop_map(|attrs| Node::Page { attrs });
    let inner = leaf.prop_recursive(5, 60, 5, |inner| {
        (prop::collection::vec(inner, 1..6), attrs(false), prop::bool::weighted(0.25), prop::bool::weighted(0.85)).prop_map(|(kids, attrs, kids_indirect, typed)| Node::Pages { kids, attrs, kids_indirect, typed })
    });
    (prop::collection::vec(inner, 1..5), attrs(true), prop::bool::weighted(0.2)).prop_map(|(kids, attrs, kids_indirect)| Node::Pages { kids, attrs, kids_indirect, typed: true })
}

fn strategy() -> impl Strategy<Value = Case> {
    (tree(), 0u8..4).prop_map(|(root, preset)| Case { root, mal: Mal::None, preset })
}

fn mal_strategy() -> impl Strategy<Value = Case> {
    let mal = prop_oneof![
        (-6i32..0).prop_map(Mal::CountDelta),
        (1i32..40).prop_map(Mal::CountDelta),
        Just(Mal::CountNegative),
        (any::<u16>(), any::<u16>()).prop_map(|(from, into)| Mal::SharedKid { from, into }),
        (any::<u16>(), any::<u16>()).prop_map(|(node, ancestor_of)| Mal::Cycle { node, ancestor_of }),
        Just(Mal::ParentLies),
    ];
    (tree(), mal, 0u8..4).prop_map(|(root, mal, preset)| Case { root, mal, preset })
}

fn run(ctx: &Ctx) {
    ctx.run_sub("wellformed", ctx.tier.pick(20_000, 200_000), strategy, check);
    ctx.run_sub("malformed", ctx.tier.pick(10_000, 100_000), mal_strategy, check);
}

fn replay(ctx: &Ctx, sub: &str, case: &Value) -> Result<Outcome, String> {
    match sub.trim_start_matches("replay:") {
        "wellformed" | "malformed" => ctx.replay_case::<Case, _>(case, check),
        s => Err(format!("unknown sub-check {s}")),
    }
}
