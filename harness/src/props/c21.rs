//! C21 — content streams parse back to the operators that were written; parsing arbitrary
//! bytes as a content stream terminates with a result or an error.
//!
//! Sub-checks
//!   gfx / text / page : generated sequences of public GraphicsContext / TextContext / Page calls.
//!                       The emitted stream is parsed by `ContentParser::parse` and, independently,
//!                       tokenised by `refpdf::Lexer`; both operator lists are compared with a MODEL
//!                       built from the API calls (immediate operators in call order, deferred state
//!                       as the effective state at each paint/show operator).
//!   bytes             : arbitrary / token-soup / mutated-valid byte strings through `parse` and
//!                       `parse_strict` (no panic; strict Ok ⇒ same list as best-effort parse).
//!   deep              : long degenerate inputs parsed in an isolated worker process on an 8 MiB
//!                       stack (a stack overflow is a crash, not a result or an error).
use crate::engine::{self, Ctx, Outcome, PropertyDef};
use crate::refpdf::{self, Obj, Tok};
use oxidize_pdf::graphics::{CidShowElement, Color, GraphicsContext, LineCap, LineDashPattern, LineJoin, RenderingIntent};
use oxidize_pdf::parser::content::{ContentOperation as CO, ContentParser, MarkedContentProps, MarkedContentValue, TextElement};
use oxidize_pdf::text::{Font, TextContext, TextRenderingMode};
use oxidize_pdf::{Document, Image, Page};
use proptest::prelude::*;
use serde::{Deserialize, Deserializer, Serialize, Serializer};
use serde_json::Value;
use std::collections::BTreeMap;
use std::sync::atomic::{AtomicBool, AtomicU64, Ordering};
use std::sync::Mutex;

pub fn def() -> PropertyDef {
    PropertyDef {
        id: "C21",
        level: "exploration",
        rule: "gfx/text/page: sequences (≤ 60 calls) of public GraphicsContext / TextContext / Page calls (paths, painting, clipping, q/Q, cm variants, line parameters, dash, device and named colours, Do, sh, ri, text state, show-text, TJ glyph runs, marked content with /MCID and /ActualText) with operands from {ordinary, 0, ±tiny, subnormal, ±1e7, ±1e15, ±3e38, 2^31 neighbours, {:.2}-carry values, NaN, ±inf}, text over the whole WinAnsi repertoire incl. ( ) \\ controls and bytes ≥ 0x80, arbitrary Unicode for custom fonts, regular and (≈10 % of names) delimiter-, #- or non-ASCII-bearing names; bytes: arbitrary bytes, token soup, mutated valid streams (≤ 4 KiB); deep: 16 degenerate patterns × lengths up to 2.5·10^5 tokens in an isolated worker. A sequence case is non-trivial when it emits ≥ 3 modelled operators and has a string needing an escape, a non-finite, huge, tiny or rounding-carry operand, marked content, or a named colour; a bytes case when the parser returned ≥ 1 operator or an error; distinct by hash of the case.",
        assumptions: &[
            "numeric tolerance: |parsed − finite_or_zero(x)| ≤ half a unit of the documented precision ({:.2} coordinates → 0.005, {:.3} device colours → 0.0005, {:.4} sc/SC components → 0.00005, font size verbatim) + 1.2e-7·|x| (the parser stores f32)",
            "operands are bounded by the Annex C real limit (|x| ≤ 3e38; Tz inputs whose ×100 exceeds it are not compared); larger magnitudes are outside the stated domain",
            "GraphicsContext::show_text with a builtin font is undocumented about encoding: UTF-8, WinAnsi and Latin-1 bytes of the text are all accepted; TextContext::write must produce the WinAnsi bytes (documented), custom fonts UTF-16BE",
            "set_miter_limit / set_flatness may clamp to the ISO 32000 ranges (≥ 1, 0..100): both the raw and the clamped value are accepted; an empty dash array may drop its phase",
            "TextContext parameters never set by the caller are unspecified and not compared; Page::text() hands the graphics fill colour to an unset text fill colour (documented)",
            "extra graphics-state operators (colour, Tf, Tc, Tw, Tz, TL, Ts, Tr) may be added by the writer as long as every paint/show operator sees the modelled state",
            "deep sub-check: the worker parses on a thread with an 8 MiB stack (the platform's main-thread default); slowness is never a violation, only a crash/abort/panic is",
        ],
        trusted_base: &["refpdf strict lexer (ISO 32000-1 §7.2–7.3, §7.8.2 operators as keywords)", "refpdf reader for Page-level content", "harness model of the documented API → operator mapping (this file)", "harness cp1252/WinAnsi table (Annex D.2)"],
        run,
        replay,
    }
}

// ───────────────────────── case representation ─────────────────────────

/// f64 that survives serde_json (non-finite values are written as strings).
#[derive(Clone, Copy, Debug, PartialEq)]
pub struct F(pub f64);

impl Serialize for F {
    fn serialize<S: Serializer>(&self, s: S) -> Result<S::Ok, S::Error> {
        if self.0.is_finite() {
            s.serialize_f64(self.0)
        } else if self.0.is_nan() {
            s.serialize_str("NaN")
        } else if self.0 > 0.0 {
            s.serialize_str("inf")
        } else {
            s.serialize_str("-inf")
        }
    }
}

impl<'de> Deserialize<'de> for F {
    fn deserialize<D: Deserializer<'de>>(d: D) -> Result<F, D::Error> {
        #[derive(Deserialize)]
        #[serde(untagged)]
        enum R {
            N(f64),
            S(String),
        }
        Ok(F(match R::deserialize(d)? {
            R::N(x) => x,
            R::S(s) => match s.as_str() {
                "inf" => f64::INFINITY,
                "-inf" => f64::NEG_INFINITY,
                _ => f64::NAN,
            },
        }))
    }
}

#[derive(Clone, Debug, Serialize, Deserialize, PartialEq)]
pub enum Col {
    Gray(F),
    Rgb(F, F, F),
    Cmyk(F, F, F, F),
}

impl Col {
    fn lib(&self) -> Color {
        match self {
            Col::Gray(g) => Color::Gray(g.0),
            Col::Rgb(r, g, b) => Color::Rgb(r.0, g.0, b.0),
            Col::Cmyk(c, m, y, k) => Color::Cmyk(c.0, m.0, y.0, k.0),
        }
    }
    fn comps(&self) -> Vec<f64> {
        match self {
            Col::Gray(g) => vec![g.0],
            Col::Rgb(r, g, b) => vec![r.0, g.0, b.0],
            Col::Cmyk(c, m, y, k) => vec![c.0, m.0, y.0, k.0],
        }
    }
}

#[derive(Clone, Debug, Serialize, Deserialize, PartialEq)]
pub enum FontSel {
    Std(u8),
    Custom(String),
}

const STD_FONTS: [&str; 14] = [
    "Helvetica", "Helvetica-Bold", "Helvetica-Oblique", "Helvetica-BoldOblique", "Times-Roman", "Times-Bold", "Times-Italic", "Times-BoldItalic", "Courier", "Courier-Bold", "Courier-Oblique",
    "Courier-BoldOblique", "Symbol", "ZapfDingbats",
];

impl FontSel {
    fn lib(&self) -> Font {
        match self {
            FontSel::Std(i) => match i % 14 {
                0 => Font::Helvetica,
                1 => Font::HelveticaBold,
                2 => Font::HelveticaOblique,
                3 => Font::HelveticaBoldOblique,
                4 => Font::TimesRoman,
                5 => Font::TimesBold,
                6 => Font::TimesItalic,
                7 => Font::TimesBoldItalic,
                8 => Font::Courier,
                9 => Font::CourierBold,
                10 => Font::CourierOblique,
                11 => Font::CourierBoldOblique,
                12 => Font::Symbol,
                _ => Font::ZapfDingbats,
            },
            FontSel::Custom(n) => Font::Custom(n.clone()),
        }
    }
    fn name(&self) -> String {
        match self {
            FontSel::Std(i) => STD_FONTS[(i % 14) as usize].to_string(),
            FontSel::Custom(n) => n.clone(),
        }
    }
    fn is_custom(&self) -> bool {
        matches!(self, FontSel::Custom(_))
    }
}

#[derive(Clone, Debug, Serialize, Deserialize, PartialEq)]
pub enum GCall {
    MoveTo(F, F),
    LineTo(F, F),
    CurveTo([F; 6]),
    Rect([F; 4]),
    ClosePath,
    Stroke,
    Fill,
    FillStroke,
    Clip,
    ClipEvenOdd,
    EndPath,
    ClipStroke,
    SetFill(Col),
    SetStroke(Col),
    LineWidth(F),
    LineCap(u8),
    LineJoin(u8),
    MiterLimit(F),
    Flatness(F),
    Dash(Vec<F>, F),
    Solid,
    Save,
    Restore,
    Translate(F, F),
    Scale(F, F),
    Rotate(F),
    Transform([F; 6]),
    DrawImage(String, [F; 4]),
    PaintShading(String),
    Intent(u8),
    FillIcc(String, Vec<F>),
    StrokeIcc(String, Vec<F>),
    ClipRect([F; 4]),
    BeginText,
    EndText,
    SetFont(FontSel, F),
    SetCustomFont(String, F),
    TextPos(F, F),
    ShowText(String),
    WordSpacing(F),
    CharSpacing(F),
    DrawText(String, F, F),
    /// (cid, adjust, x_offset) — the two reals are cast to f32 at the call
    ShowCid(Vec<(u16, F, F)>, F, F),
}

#[derive(Clone, Debug, Serialize, Deserialize, PartialEq)]
pub enum TCall {
    SetFont(FontSel, F),
    At(F, F),
    Write(String),
    WriteLine(String),
    CharSpacing(F),
    WordSpacing(F),
    HScale(F),
    Leading(F),
    Rise(F),
    RenderMode(u8),
    Fill(Col),
    Stroke(Col),
}

#[derive(Clone, Debug, Serialize, Deserialize, PartialEq)]
pub enum PCall {
    G(GCall),
    T(TCall),
    BeginMC(String),
    BeginMCText(String, String),
    EndMC,
    /// Page::draw_image (the image is registered on the page first)
    DrawImage(String, [F; 4]),
}

#[derive(Clone, Copy, Debug, Serialize, Deserialize, PartialEq)]
pub enum Kind {
    Gfx,
    Text,
    Page,
}

#[derive(Clone, Debug, Serialize, Deserialize)]
pub struct Case {
    pub kind: Kind,
    pub calls: Vec<PCall>,
    /// Page kind only: Document::set_compress
    pub compress: bool,
}

// ───────────────────────── WinAnsi (Annex D.2 / cp1252) ─────────────────────────

const CP1252_HIGH: [(u32, u8); 27] = [
    (0x20AC, 0x80), (0x201A, 0x82), (0x0192, 0x83), (0x201E, 0x84), (0x2026, 0x85), (0x2020, 0x86), (0x2021, 0x87), (0x02C6, 0x88), (0x2030, 0x89), (0x0160, 0x8A), (0x2039, 0x8B), (0x0152, 0x8C),
    (0x017D, 0x8E), (0x2018, 0x91), (0x2019, 0x92), (0x201C, 0x93), (0x201D, 0x94), (0x2022, 0x95), (0x2013, 0x96), (0x2014, 0x97), (0x02DC, 0x98), (0x2122, 0x99), (0x0161, 0x9A), (0x203A, 0x9B),
    (0x0153, 0x9C), (0x017E, 0x9E), (0x0178, 0x9F),
];

fn winansi_byte(ch: char) -> Option<u8> {
    let c = ch as u32;
    if c <= 0x7F || (0xA0..=0xFF).contains(&c) {
        return Some(c as u8);
    }
    CP1252_HIGH.iter().find(|(u, _)| *u == c).map(|(_, b)| *b)
}

fn winansi(text: &str) -> Option<Vec<u8>> {
    text.chars().map(winansi_byte).collect()
}

fn latin1(text: &str) -> Option<Vec<u8>> {
    text.chars().map(|c| if (c as u32) <= 0xFF { Some(c as u32 as u8) } else { None }).collect()
}

fn utf16be(text: &str) -> Vec<u8> {
    text.encode_utf16().flat_map(|u| [(u >> 8) as u8, (u & 0xFF) as u8]).collect()
}

fn winansi_repertoire() -> Vec<char> {
    let mut v: Vec<char> = (0u32..=0x7F).chain(0xA0..=0xFF).filter_map(char::from_u32).collect();
    v.extend(CP1252_HIGH.iter().filter_map(|(u, _)| char::from_u32(*u)));
    v
}

fn name_is_regular(n: &str) -> bool {
    !n.is_empty() && n.bytes().all(|b| b > 0x20 && b < 0x7F && !refpdf::is_delim(b) && b != b'#')
}

// ───────────────────────── model ─────────────────────────

#[derive(Clone, Copy, Debug, PartialEq)]
enum Tol {
    /// {:.2}
    Coord,
    /// {:.3} device colour components
    Dev,
    /// {:.4} sc / SC components
    Comp,
    /// printed verbatim
    Exact,
}

impl Tol {
    fn abs(self) -> f64 {
        match self {
            Tol::Coord => 0.005 + 1e-9,
            Tol::Dev => 0.0005 + 1e-9,
            Tol::Comp => 0.00005 + 1e-9,
            Tol::Exact => 1e-44,
        }
    }
}

fn fz(x: f64) -> f64 {
    if x.is_finite() {
        x
    } else {
        0.0
    }
}

fn close(parsed: f64, want_raw: f64, tol: Tol) -> bool {
    let w = fz(want_raw);
    (parsed - w).abs() <= tol.abs() + 1.2e-7 * w.abs()
}

/// expected operand
#[derive(Clone, Debug)]
enum A {
    N(f64, Tol),
    /// any of several values is acceptable
    NAlt(Vec<f64>, Tol),
    /// a number outside the stated domain (|x| > 3e38 derived by the library): not compared
    AnyNum,
    I(i64),
    Name(String),
    /// any of several byte strings is acceptable
    S(Vec<Vec<u8>>),
    Arr(Vec<A>),
    Props { mcid: i64, actual: Option<Vec<u8>> },
}

#[derive(Clone, Debug, PartialEq)]
enum MCol {
    Dev(Col),
    Named(String, Vec<f64>),
}

/// what a paint / show operator must see
#[derive(Clone, Debug, Default)]
struct See {
    fill: Option<MCol>,
    stroke: Option<MCol>,
    font: Option<(String, f64)>,
    tc: Option<f64>,
    tw: Option<f64>,
    tz: Option<f64>,
    tl: Option<f64>,
    ts: Option<f64>,
    tr: Option<i64>,
}

const FL_NONFINITE: u8 = 1;
const FL_HUGE: u8 = 2;
const FL_HOSTILE: u8 = 4;

#[derive(Clone, Debug)]
struct Exp {
    call: &'static str,
    op: &'static str,
    args: Vec<A>,
    see: Option<See>,
    flags: u8,
}

fn flags_of(args: &[A]) -> u8 {
    let mut f = 0;
    for a in args {
        match a {
            A::N(v, _) => {
                if !v.is_finite() {
                    f |= FL_NONFINITE;
                } else if v.abs() >= 2147483648.0 {
                    f |= FL_HUGE;
                }
            }
            A::NAlt(vs, _) => {
                for v in vs {
                    if !v.is_finite() {
                        f |= FL_NONFINITE;
                    } else if v.abs() >= 2147483648.0 {
                        f |= FL_HUGE;
                    }
                }
            }
            A::Name(n) => {
                if !name_is_regular(n) {
                    f |= FL_HOSTILE;
                }
            }
            A::Arr(v) => f |= flags_of(v),
            _ => {}
        }
    }
    f
}

#[derive(Clone, Debug)]
struct MGfxState {
    dev_fill: Col,
    dev_stroke: Col,
    fill: MCol,
    stroke: MCol,
    font: Option<String>,
    size: f64,
    custom: bool,
}

struct MText {
    font: FontSel,
    size: f64,
    pos: (f64, f64),
    tc: Option<f64>,
    tw: Option<f64>,
    hs: Option<f64>,
    tl: Option<f64>,
    ts: Option<f64>,
    tr: Option<u8>,
    fill: Option<Col>,
    stroke: Option<Col>,
    /// the library's text fill colour can no longer be predicted from the documentation
    fill_unknown: bool,
}

struct M {
    exp: Vec<Exp>,
    g: MGfxState,
    gstack: Vec<MGfxState>,
    t: MText,
    mc_depth: u32,
    next_mcid: i64,
    /// strings the case shows (for labels)
    strings: Vec<Vec<u8>>,
}

impl M {
    fn new() -> M {
        let black = Col::Gray(F(0.0));
        M {
            exp: Vec::new(),
            g: MGfxState { dev_fill: black.clone(), dev_stroke: black.clone(), fill: MCol::Dev(black.clone()), stroke: MCol::Dev(black), font: None, size: 12.0, custom: false },
            gstack: Vec::new(),
            t: MText { font: FontSel::Std(0), size: 12.0, pos: (0.0, 0.0), tc: None, tw: None, hs: None, tl: None, ts: None, tr: None, fill: None, stroke: None, fill_unknown: false },
            mc_depth: 0,
            next_mcid: 0,
            strings: Vec::new(),
        }
    }
    fn imm(&mut self, call: &'static str, op: &'static str, args: Vec<A>) {
        let flags = flags_of(&args);
        self.exp.push(Exp { call, op, args, see: None, flags });
    }
    fn imm_see(&mut self, call: &'static str, op: &'static str, args: Vec<A>, see: See) {
        let flags = flags_of(&args);
        self.exp.push(Exp { call, op, args, see: Some(see), flags });
    }
}

fn co(x: F) -> A {
    A::N(x.0, Tol::Coord)
}

fn cos(xs: &[F]) -> Vec<A> {
    xs.iter().map(|x| co(*x)).collect()
}

fn cid_hex_bytes(cid: u16) -> Vec<u8> {
    vec![(cid >> 8) as u8, (cid & 0xFF) as u8]
}

fn apply_g(c: &GCall, g: &mut GraphicsContext, m: &mut M) {
    match c {
        GCall::MoveTo(x, y) => {
            g.move_to(x.0, y.0);
            m.imm("move_to", "m", vec![co(*x), co(*y)]);
        }
        GCall::LineTo(x, y) => {
            g.line_to(x.0, y.0);
            m.imm("line_to", "l", vec![co(*x), co(*y)]);
        }
        GCall::CurveTo(v) => {
            g.curve_to(v[0].0, v[1].0, v[2].0, v[3].0, v[4].0, v[5].0);
            m.imm("curve_to", "c", cos(v));
        }
        GCall::Rect(v) => {
            g.rect(v[0].0, v[1].0, v[2].0, v[3].0);
            m.imm("rect", "re", cos(v));
        }
        GCall::ClosePath => {
            g.close_path();
            m.imm("close_path", "h", vec![]);
        }
        GCall::Stroke => {
            g.stroke();
            let see = See { stroke: Some(m.g.stroke.clone()), ..See::default() };
            m.imm_see("stroke", "S", vec![], see);
        }
        GCall::Fill => {
            g.fill();
            let see = See { fill: Some(m.g.fill.clone()), ..See::default() };
            m.imm_see("fill", "f", vec![], see);
        }
        GCall::FillStroke => {
            g.fill_stroke();
            let see = See { fill: Some(m.g.fill.clone()), stroke: Some(m.g.stroke.clone()), ..See::default() };
            m.imm_see("fill_stroke", "B", vec![], see);
        }
        GCall::Clip => {
            g.clip();
            m.imm("clip", "W", vec![]);
        }
        GCall::ClipEvenOdd => {
            g.clip_even_odd();
            m.imm("clip_even_odd", "W*", vec![]);
        }
        GCall::EndPath => {
            g.end_path();
            m.imm("end_path", "n", vec![]);
        }
        GCall::ClipStroke => {
            g.clip_stroke();
            m.imm("clip_stroke", "W", vec![]);
            let see = See { stroke: Some(m.g.stroke.clone()), ..See::default() };
            m.imm_see("clip_stroke", "S", vec![], see);
        }
        GCall::SetFill(col) => {
            g.set_fill_color(col.lib());
            m.g.dev_fill = col.clone();
            m.g.fill = MCol::Dev(col.clone());
        }
        GCall::SetStroke(col) => {
            g.set_stroke_color(col.lib());
            m.g.dev_stroke = col.clone();
            m.g.stroke = MCol::Dev(col.clone());
        }
        GCall::LineWidth(w) => {
            g.set_line_width(w.0);
            m.imm("set_line_width", "w", vec![co(*w)]);
        }
        GCall::LineCap(k) => {
            let (cap, i) = match k % 3 {
                0 => (LineCap::Butt, 0),
                1 => (LineCap::Round, 1),
                _ => (LineCap::Square, 2),
            };
            g.set_line_cap(cap);
            m.imm("set_line_cap", "J", vec![A::I(i)]);
        }
        GCall::LineJoin(k) => {
            let (j, i) = match k % 3 {
                0 => (LineJoin::Miter, 0),
                1 => (LineJoin::Round, 1),
                _ => (LineJoin::Bevel, 2),
            };
            g.set_line_join(j);
            m.imm("set_line_join", "j", vec![A::I(i)]);
        }
        GCall::MiterLimit(l) => {
            g.set_miter_limit(l.0);
            // ISO 32000-1 §8.4.3.5: the limit is ≥ 1; a writer may clamp
            m.imm("set_miter_limit", "M", vec![A::NAlt(vec![l.0, fz(l.0).max(1.0), l.0.max(1.0)], Tol::Coord)]);
        }
        GCall::Flatness(f) => {
            g.set_flatness(f.0);
            m.imm("set_flatness", "i", vec![A::NAlt(vec![f.0, fz(f.0).clamp(0.0, 100.0), f.0.clamp(0.0, 100.0)], Tol::Coord)]);
        }
        GCall::Dash(arr, phase) => {
            g.set_line_dash_pattern(LineDashPattern::new(arr.iter().map(|x| x.0).collect(), phase.0));
            let ph = if arr.is_empty() { A::NAlt(vec![phase.0, 0.0], Tol::Coord) } else { co(*phase) };
            m.imm("set_line_dash_pattern", "d", vec![A::Arr(cos(arr)), ph]);
        }
        GCall::Solid => {
            g.set_line_solid();
            m.imm("set_line_solid", "d", vec![A::Arr(vec![]), A::I(0)]);
        }
        GCall::Save => {
            g.save_state();
            m.gstack.push(m.g.clone());
            m.imm("save_state", "q", vec![]);
        }
        GCall::Restore => {
            g.restore_state();
            if let Some(s) = m.gstack.pop() {
                m.g = s;
            }
            m.imm("restore_state", "Q", vec![]);
        }
        GCall::Translate(x, y) => {
            g.translate(x.0, y.0);
            m.imm("translate", "cm", vec![A::I(1), A::I(0), A::I(0), A::I(1), co(*x), co(*y)]);
        }
        GCall::Scale(x, y) => {
            g.scale(x.0, y.0);
            m.imm("scale", "cm", vec![co(*x), A::I(0), A::I(0), co(*y), A::I(0), A::I(0)]);
        }
        GCall::Rotate(a) => {
            g.rotate(a.0);
            let (s, c) = (a.0.sin(), a.0.cos());
            m.imm("rotate", "cm", vec![co(F(c)), co(F(s)), co(F(-s)), co(F(c)), A::I(0), A::I(0)]);
        }
        GCall::Transform(v) => {
            g.transform(v[0].0, v[1].0, v[2].0, v[3].0, v[4].0, v[5].0);
            m.imm("transform", "cm", cos(v));
        }
        GCall::DrawImage(name, v) => {
            g.draw_image(name.clone(), v[0].0, v[1].0, v[2].0, v[3].0);
            m.imm("draw_image", "q", vec![]);
            m.imm("draw_image", "cm", vec![co(v[2]), A::I(0), A::I(0), co(v[3]), co(v[0]), co(v[1])]);
            m.imm("draw_image", "Do", vec![A::Name(name.clone())]);
            m.imm("draw_image", "Q", vec![]);
        }
        GCall::PaintShading(name) => {
            g.paint_shading(name.clone());
            m.imm("paint_shading", "sh", vec![A::Name(name.clone())]);
        }
        GCall::Intent(k) => {
            let (ri, n) = match k % 4 {
                0 => (RenderingIntent::AbsoluteColorimetric, "AbsoluteColorimetric"),
                1 => (RenderingIntent::RelativeColorimetric, "RelativeColorimetric"),
                2 => (RenderingIntent::Saturation, "Saturation"),
                _ => (RenderingIntent::Perceptual, "Perceptual"),
            };
            g.set_rendering_intent(ri);
            m.imm("set_rendering_intent", "ri", vec![A::Name(n.to_string())]);
        }
        GCall::FillIcc(name, comps) => {
            let v: Vec<f64> = comps.iter().map(|x| x.0).collect();
            g.set_fill_color_icc(name.clone(), v.clone());
            m.imm("set_fill_color_icc", "cs", vec![A::Name(name.clone())]);
            m.imm("set_fill_color_icc", "sc", v.iter().map(|x| A::N(*x, Tol::Comp)).collect());
            m.g.fill = MCol::Named(name.clone(), v);
        }
        GCall::StrokeIcc(name, comps) => {
            let v: Vec<f64> = comps.iter().map(|x| x.0).collect();
            g.set_stroke_color_icc(name.clone(), v.clone());
            m.imm("set_stroke_color_icc", "CS", vec![A::Name(name.clone())]);
            m.imm("set_stroke_color_icc", "SC", v.iter().map(|x| A::N(*x, Tol::Comp)).collect());
            m.g.stroke = MCol::Named(name.clone(), v);
        }
        GCall::ClipRect(v) => {
            if g.clip_rect(v[0].0, v[1].0, v[2].0, v[3].0).is_ok() {
                m.imm("clip_rect", "re", cos(v));
                m.imm("clip_rect", "W", vec![]);
                m.imm("clip_rect", "n", vec![]);
            }
        }
        GCall::BeginText => {
            g.begin_text();
            m.imm("begin_text", "BT", vec![]);
        }
        GCall::EndText => {
            g.end_text();
            m.imm("end_text", "ET", vec![]);
        }
        GCall::SetFont(f, size) => {
            g.set_font(f.lib(), size.0);
            m.imm("set_font", "Tf", vec![A::Name(f.name()), A::N(size.0, Tol::Exact)]);
            m.g.font = Some(f.name());
            m.g.size = size.0;
            m.g.custom = f.is_custom();
        }
        GCall::SetCustomFont(name, size) => {
            g.set_custom_font(name, size.0);
            m.imm("set_custom_font", "Tf", vec![A::Name(name.clone()), A::N(size.0, Tol::Exact)]);
            m.g.font = Some(name.clone());
            m.g.size = size.0;
            m.g.custom = true;
        }
        GCall::TextPos(x, y) => {
            g.set_text_position(x.0, y.0);
            m.imm("set_text_position", "Td", vec![co(*x), co(*y)]);
        }
        GCall::ShowText(text) => {
            if g.show_text(text).is_ok() {
                let alts = if m.g.custom {
                    vec![utf16be(text)]
                } else {
                    let mut a = vec![text.as_bytes().to_vec()];
                    a.extend(winansi(text));
                    a.extend(latin1(text));
                    a
                };
                m.strings.push(alts[0].clone());
                m.imm("show_text", "Tj", vec![A::S(alts)]);
            }
        }
        GCall::WordSpacing(x) => {
            g.set_word_spacing(x.0);
            m.imm("set_word_spacing", "Tw", vec![co(*x)]);
        }
        GCall::CharSpacing(x) => {
            g.set_character_spacing(x.0);
            m.imm("set_character_spacing", "Tc", vec![co(*x)]);
        }
        GCall::DrawText(text, x, y) => {
            if g.draw_text(text, x.0, y.0).is_ok() {
                let unicode = m.g.custom || text.chars().any(|c| c as u32 > 255);
                let bytes = if unicode { utf16be(text) } else { latin1(text).unwrap_or_default() };
                let font = m.g.font.clone().unwrap_or_else(|| "Helvetica".to_string());
                m.strings.push(bytes.clone());
                m.imm("draw_text", "BT", vec![]);
                m.imm("draw_text", "Tf", vec![A::Name(font), A::N(m.g.size, Tol::Exact)]);
                m.imm("draw_text", "Td", vec![co(*x), co(*y)]);
                let see = See { fill: Some(m.g.fill.clone()), ..See::default() };
                m.imm_see("draw_text", "Tj", vec![A::S(vec![bytes])], see);
                m.imm("draw_text", "ET", vec![]);
            }
        }
        GCall::ShowCid(els, x, y) => {
            let lib_els: Vec<CidShowElement> = els.iter().map(|(cid, adj, xo)| CidShowElement::new(*cid, adj.0 as f32).with_x_offset(xo.0 as f32)).collect();
            g.show_cid_array(&lib_els, x.0, y.0);
            // documented: glyphs without adjustment coalesce into one string; a non-zero adjust follows its
            // glyph; a non-zero x_offset is drawn as −x_offset, glyph, x_offset + adjust
            let mut arr: Vec<A> = Vec::new();
            let mut run: Vec<u8> = Vec::new();
            for (cid, adj, xo) in els {
                let (adj, xo) = (adj.0 as f32, xo.0 as f32);
                if xo != 0.0 {
                    if !run.is_empty() {
                        arr.push(A::S(vec![std::mem::take(&mut run)]));
                    }
                    arr.push(A::N((-xo) as f64, Tol::Coord));
                    arr.push(A::S(vec![cid_hex_bytes(*cid)]));
                    arr.push(A::N((xo + adj) as f64, Tol::Coord));
                    continue;
                }
                run.extend(cid_hex_bytes(*cid));
                if adj != 0.0 {
                    arr.push(A::S(vec![std::mem::take(&mut run)]));
                    arr.push(A::N(adj as f64, Tol::Coord));
                }
            }
            if !run.is_empty() {
                arr.push(A::S(vec![run]));
            }
            let font = m.g.font.clone().unwrap_or_else(|| "Helvetica".to_string());
            m.imm("show_cid_array", "BT", vec![]);
            m.imm("show_cid_array", "Tf", vec![A::Name(font), A::N(m.g.size, Tol::Exact)]);
            m.imm("show_cid_array", "Td", vec![co(*x), co(*y)]);
            let see = See { fill: Some(m.g.fill.clone()), ..See::default() };
            m.imm_see("show_cid_array", "TJ", vec![A::Arr(arr)], see);
            m.imm("show_cid_array", "ET", vec![]);
        }
    }
}

fn render_mode(k: u8) -> TextRenderingMode {
    match k % 8 {
        0 => TextRenderingMode::Fill,
        1 => TextRenderingMode::Stroke,
        2 => TextRenderingMode::FillStroke,
        3 => TextRenderingMode::Invisible,
        4 => TextRenderingMode::FillClip,
        5 => TextRenderingMode::StrokeClip,
        6 => TextRenderingMode::FillStrokeClip,
        _ => TextRenderingMode::Clip,
    }
}

fn model_write(m: &mut M, call: &'static str, text: &str) {
    let bytes = if m.t.font.is_custom() { utf16be(text) } else { text.chars().map(|c| winansi_byte(c).unwrap_or(b'?')).collect() };
    m.strings.push(bytes.clone());
    let tz = m.t.hs.map(|s| s * 100.0);
    let see = See {
        fill: if m.t.fill_unknown { None } else { m.t.fill.clone().map(MCol::Dev) },
        stroke: m.t.stroke.clone().map(MCol::Dev),
        font: Some((m.t.font.name(), m.t.size)),
        tc: m.t.tc,
        tw: m.t.tw,
        tz: tz.filter(|z| !z.is_finite() || z.abs() <= 3.0e38),
        tl: m.t.tl,
        ts: m.t.ts,
        tr: m.t.tr.map(|k| (k % 8) as i64),
    };
    m.imm(call, "BT", vec![]);
    let in_domain = |v: f64| if v.is_finite() && v.abs() > 3.0e38 { A::AnyNum } else { A::N(v, Tol::Coord) };
    m.imm(call, "Td", vec![in_domain(m.t.pos.0), in_domain(m.t.pos.1)]);
    m.imm_see(call, "Tj", vec![A::S(vec![bytes])], see);
    m.imm(call, "ET", vec![]);
}

fn apply_t(c: &TCall, t: &mut TextContext, m: &mut M) {
    match c {
        TCall::SetFont(f, size) => {
            t.set_font(f.lib(), size.0);
            m.t.font = f.clone();
            m.t.size = size.0;
        }
        TCall::At(x, y) => {
            t.at(x.0, y.0);
            m.t.pos = (x.0, y.0);
        }
        TCall::Write(text) => {
            if t.write(text).is_ok() {
                model_write(m, "write", text);
            }
        }
        TCall::WriteLine(text) => {
            if t.write_line(text).is_ok() {
                model_write(m, "write_line", text);
                // documented: "Move down for next line" by 1.2 × font size
                m.t.pos.1 -= m.t.size * 1.2;
            }
        }
        TCall::CharSpacing(x) => {
            t.set_character_spacing(x.0);
            m.t.tc = Some(x.0);
        }
        TCall::WordSpacing(x) => {
            t.set_word_spacing(x.0);
            m.t.tw = Some(x.0);
        }
        TCall::HScale(x) => {
            t.set_horizontal_scaling(x.0);
            m.t.hs = Some(x.0);
        }
        TCall::Leading(x) => {
            t.set_leading(x.0);
            m.t.tl = Some(x.0);
        }
        TCall::Rise(x) => {
            t.set_text_rise(x.0);
            m.t.ts = Some(x.0);
        }
        TCall::RenderMode(k) => {
            t.set_rendering_mode(render_mode(*k));
            m.t.tr = Some(*k);
        }
        TCall::Fill(col) => {
            t.set_fill_color(col.lib());
            m.t.fill = Some(col.clone());
            m.t.fill_unknown = false;
        }
        TCall::Stroke(col) => {
            t.set_stroke_color(col.lib());
            m.t.stroke = Some(col.clone());
        }
    }
}

/// Drive the library with the case; returns the emitted content bytes and the model.
fn drive(c: &Case) -> Result<(Vec<u8>, M), (String, String)> {
    let mut m = M::new();
    match c.kind {
        Kind::Gfx => {
            let mut g = GraphicsContext::new();
            for call in &c.calls {
                if let PCall::G(gc) = call {
                    apply_g(gc, &mut g, &mut m);
                }
            }
            Ok((g.operations().into_bytes(), m))
        }
        Kind::Text => {
            let mut t = TextContext::new();
            for call in &c.calls {
                if let PCall::T(tc) = call {
                    apply_t(tc, &mut t, &mut m);
                }
            }
            Ok((t.operations().into_bytes(), m))
        }
        Kind::Page => {
            let mut page = Page::new(612.0, 792.0);
            for call in &c.calls {
                match call {
                    PCall::G(gc) => apply_g(gc, page.graphics(), &mut m),
                    PCall::T(tc) => {
                        // documented hand-off of the graphics fill colour to an unset text fill colour
                        if m.t.fill.is_none() && !m.t.fill_unknown {
                            match &m.g.fill {
                                MCol::Dev(col) => m.t.fill = Some(col.clone()),
                                MCol::Named(..) => m.t.fill_unknown = true,
                            }
                        }
                        apply_t(tc, page.text(), &mut m);
                    }
                    PCall::BeginMC(tag) => {
                        if let Ok(id) = page.begin_marked_content(tag) {
                            m.mc_depth += 1;
                            m.imm("begin_marked_content", "BDC", vec![A::Name(tag.clone()), A::Props { mcid: id as i64, actual: None }]);
                        }
                    }
                    PCall::BeginMCText(tag, text) => {
                        if let Ok(id) = page.begin_marked_content_with_actual_text(tag, text) {
                            m.mc_depth += 1;
                            let mut b = vec![0xFE, 0xFF];
                            b.extend(utf16be(text));
                            m.imm("begin_marked_content_with_actual_text", "BDC", vec![A::Name(tag.clone()), A::Props { mcid: id as i64, actual: Some(b) }]);
                        }
                    }
                    PCall::EndMC => {
                        if page.end_marked_content().is_ok() {
                            m.mc_depth = m.mc_depth.saturating_sub(1);
                            m.imm("end_marked_content", "EMC", vec![]);
                        }
                    }
                    PCall::DrawImage(name, v) => {
                        if let Ok(img) = Image::from_gray_data(vec![0x80], 1, 1) {
                            page.add_image(name.clone(), img);
                        }
                        if page.draw_image(name, v[0].0, v[1].0, v[2].0, v[3].0).is_ok() {
                            m.gstack.push(m.g.clone());
                            m.imm("Page::draw_image", "q", vec![]);
                            m.imm("Page::draw_image", "cm", vec![co(v[2]), A::I(0), A::I(0), co(v[3]), co(v[0]), co(v[1])]);
                            m.imm("Page::draw_image", "Do", vec![A::Name(name.clone())]);
                            m.imm("Page::draw_image", "Q", vec![]);
                            if let Some(s) = m.gstack.pop() {
                                m.g = s;
                            }
                        }
                    }
                }
            }
            let mut doc = Document::new();
            doc.set_compress(c.compress);
            doc.add_page(page);
            let bytes = doc.to_bytes().map_err(|e| ("C21/page-written".to_string(), format!("{e}")))?;
            let rd = refpdf::Reader::open(&bytes, None).map_err(|e| ("C21/page-content-readable".to_string(), format!("open: {e:?}")))?;
            let pages = rd.pages().map_err(|e| ("C21/page-content-readable".to_string(), format!("pages: {e:?}")))?;
            let p = pages.first().ok_or_else(|| ("C21/page-content-readable".to_string(), "no page".to_string()))?;
            let content = rd.page_content(p).map_err(|e| ("C21/page-content-readable".to_string(), format!("content: {e:?}")))?;
            Ok((content, m))
        }
    }
}

// ───────────────────────── parsed operator lists ─────────────────────────

#[derive(Clone, Debug, PartialEq)]
enum PV {
    Num(f64),
    Name(Vec<u8>),
    Str(Vec<u8>),
    Arr(Vec<PV>),
    Dict(BTreeMap<Vec<u8>, PV>),
    Other(String),
}

#[derive(Clone, Debug, PartialEq)]
struct POp {
    op: String,
    args: Vec<PV>,
}

fn show_pv(v: &PV) -> String {
    match v {
        PV::Num(n) => format!("{n}"),
        PV::Name(n) => format!("/{}", String::from_utf8_lossy(n)),
        PV::Str(s) => format!("{:?}", Obj::Str(s.clone())),
        PV::Arr(a) => format!("[{}]", a.iter().map(show_pv).collect::<Vec<_>>().join(" ")),
        PV::Dict(d) => format!("<<{}>>", d.iter().map(|(k, v)| format!("/{} {}", String::from_utf8_lossy(k), show_pv(v))).collect::<Vec<_>>().join(" ")),
        PV::Other(s) => s.clone(),
    }
}

fn show_pop(p: &POp) -> String {
    format!("{} {}", p.args.iter().map(show_pv).collect::<Vec<_>>().join(" "), p.op)
}

fn show_ops(ops: &[POp], around: usize) -> String {
    let lo = around.saturating_sub(3);
    let hi = (around + 4).min(ops.len());
    ops[lo..hi].iter().enumerate().map(|(i, p)| format!("{}{}", if lo + i == around { "»" } else { "" }, show_pop(p))).collect::<Vec<_>>().join(" | ")
}

fn n(x: f32) -> PV {
    PV::Num(x as f64)
}

fn nm(s: &str) -> PV {
    PV::Name(s.as_bytes().to_vec())
}

fn mcv(v: &MarkedContentValue) -> PV {
    match v {
        MarkedContentValue::String(b) => PV::Str(b.clone()),
        MarkedContentValue::Integer(i) => PV::Num(*i as f64),
        MarkedContentValue::Real(r) => PV::Num(*r),
        MarkedContentValue::Name(s) => nm(s),
        MarkedContentValue::Array(a) => PV::Arr(a.iter().map(mcv).collect()),
        MarkedContentValue::Dict(d) => PV::Dict(d.iter().map(|(k, v)| (k.as_bytes().to_vec(), mcv(v))).collect()),
    }
}

fn mcp(p: &MarkedContentProps) -> PV {
    match p {
        MarkedContentProps::Inline(d) => PV::Dict(d.iter().map(|(k, v)| (k.as_bytes().to_vec(), mcv(v))).collect()),
        MarkedContentProps::ResourceRef(s) => nm(s),
    }
}

fn norm_lib(op: &CO) -> POp {
    let (o, a): (&str, Vec<PV>) = match op {
        CO::BeginText => ("BT", vec![]),
        CO::EndText => ("ET", vec![]),
        CO::SetCharSpacing(x) => ("Tc", vec![n(*x)]),
        CO::SetWordSpacing(x) => ("Tw", vec![n(*x)]),
        CO::SetHorizontalScaling(x) => ("Tz", vec![n(*x)]),
        CO::SetLeading(x) => ("TL", vec![n(*x)]),
        CO::SetFont(f, s) => ("Tf", vec![nm(f), n(*s)]),
        CO::SetTextRenderMode(m) => ("Tr", vec![PV::Num(*m as f64)]),
        CO::SetTextRise(x) => ("Ts", vec![n(*x)]),
        CO::MoveText(x, y) => ("Td", vec![n(*x), n(*y)]),
        CO::MoveTextSetLeading(x, y) => ("TD", vec![n(*x), n(*y)]),
        CO::SetTextMatrix(a, b, c, d, e, f) => ("Tm", vec![n(*a), n(*b), n(*c), n(*d), n(*e), n(*f)]),
        CO::NextLine => ("T*", vec![]),
        CO::ShowText(s) => ("Tj", vec![PV::Str(s.clone())]),
        CO::ShowTextArray(els) => (
            "TJ",
            vec![PV::Arr(
                els.iter()
                    .map(|e| match e {
                        TextElement::Text(s) => PV::Str(s.clone()),
                        TextElement::Spacing(x) => n(*x),
                    })
                    .collect(),
            )],
        ),
        CO::NextLineShowText(s) => ("'", vec![PV::Str(s.clone())]),
        CO::SetSpacingNextLineShowText(a, b, s) => ("\"", vec![n(*a), n(*b), PV::Str(s.clone())]),
        CO::SaveGraphicsState => ("q", vec![]),
        CO::RestoreGraphicsState => ("Q", vec![]),
        CO::SetTransformMatrix(a, b, c, d, e, f) => ("cm", vec![n(*a), n(*b), n(*c), n(*d), n(*e), n(*f)]),
        CO::SetLineWidth(x) => ("w", vec![n(*x)]),
        CO::SetLineCap(x) => ("J", vec![PV::Num(*x as f64)]),
        CO::SetLineJoin(x) => ("j", vec![PV::Num(*x as f64)]),
        CO::SetMiterLimit(x) => ("M", vec![n(*x)]),
        CO::SetDashPattern(a, p) => ("d", vec![PV::Arr(a.iter().map(|x| n(*x)).collect()), n(*p)]),
        CO::SetIntent(s) => ("ri", vec![nm(s)]),
        CO::SetFlatness(x) => ("i", vec![n(*x)]),
        CO::SetGraphicsStateParams(s) => ("gs", vec![nm(s)]),
        CO::MoveTo(x, y) => ("m", vec![n(*x), n(*y)]),
        CO::LineTo(x, y) => ("l", vec![n(*x), n(*y)]),
        CO::CurveTo(a, b, c, d, e, f) => ("c", vec![n(*a), n(*b), n(*c), n(*d), n(*e), n(*f)]),
        CO::CurveToV(a, b, c, d) => ("v", vec![n(*a), n(*b), n(*c), n(*d)]),
        CO::CurveToY(a, b, c, d) => ("y", vec![n(*a), n(*b), n(*c), n(*d)]),
        CO::ClosePath => ("h", vec![]),
        CO::Rectangle(a, b, c, d) => ("re", vec![n(*a), n(*b), n(*c), n(*d)]),
        CO::Stroke => ("S", vec![]),
        CO::CloseStroke => ("s", vec![]),
        CO::Fill => ("f", vec![]),
        CO::FillEvenOdd => ("f*", vec![]),
        CO::FillStroke => ("B", vec![]),
        CO::FillStrokeEvenOdd => ("B*", vec![]),
        CO::CloseFillStroke => ("b", vec![]),
        CO::CloseFillStrokeEvenOdd => ("b*", vec![]),
        CO::EndPath => ("n", vec![]),
        CO::Clip => ("W", vec![]),
        CO::ClipEvenOdd => ("W*", vec![]),
        CO::SetStrokingColorSpace(s) => ("CS", vec![nm(s)]),
        CO::SetNonStrokingColorSpace(s) => ("cs", vec![nm(s)]),
        CO::SetStrokingColor(v) => ("SC", v.iter().map(|x| n(*x)).collect()),
        CO::SetNonStrokingColor(v) => ("sc", v.iter().map(|x| n(*x)).collect()),
        CO::SetStrokingGray(x) => ("G", vec![n(*x)]),
        CO::SetNonStrokingGray(x) => ("g", vec![n(*x)]),
        CO::SetStrokingRGB(a, b, c) => ("RG", vec![n(*a), n(*b), n(*c)]),
        CO::SetNonStrokingRGB(a, b, c) => ("rg", vec![n(*a), n(*b), n(*c)]),
        CO::SetStrokingCMYK(a, b, c, d) => ("K", vec![n(*a), n(*b), n(*c), n(*d)]),
        CO::SetNonStrokingCMYK(a, b, c, d) => ("k", vec![n(*a), n(*b), n(*c), n(*d)]),
        CO::ShadingFill(s) => ("sh", vec![nm(s)]),
        CO::BeginInlineImage => ("BI", vec![]),
        CO::InlineImage { data, .. } => ("BI", vec![PV::Str(data.clone())]),
        CO::PaintXObject(s) => ("Do", vec![nm(s)]),
        CO::BeginMarkedContent(s) => ("BMC", vec![nm(s)]),
        CO::BeginMarkedContentWithProps(s, p) => ("BDC", vec![nm(s), mcp(p)]),
        CO::EndMarkedContent => ("EMC", vec![]),
        CO::DefineMarkedContentPoint(s) => ("MP", vec![nm(s)]),
        CO::DefineMarkedContentPointWithProps(s, p) => ("DP", vec![nm(s), mcp(p)]),
        CO::BeginCompatibility => ("BX", vec![]),
        CO::EndCompatibility => ("EX", vec![]),
    };
    POp { op: o.to_string(), args: a }
}

fn obj_to_pv(o: &Obj) -> PV {
    match o {
        Obj::Int(i) => PV::Num(*i as f64),
        Obj::Real(r) => PV::Num(*r),
        Obj::Str(s) => PV::Str(s.clone()),
        Obj::Name(s) => PV::Name(s.clone()),
        Obj::Arr(a) => PV::Arr(a.iter().map(obj_to_pv).collect()),
        Obj::Dict(d) => PV::Dict(d.0.iter().map(|(k, v)| (k.clone(), obj_to_pv(v))).collect()),
        other => PV::Other(format!("{other:?}")),
    }
}

/// Independent tokenisation of a content stream (ISO 32000-1 §7.8.2: operands are ordinary
/// objects, operators are keywords). Inline images are not expected in library output.
fn lex_ops(bytes: &[u8]) -> Result<Vec<POp>, String> {
    let mut lx = refpdf::Lexer::new(bytes, 0);
    let mut out = Vec::new();
    let mut args: Vec<PV> = Vec::new();
    loop {
        lx.skip_ws();
        let start = lx.pos;
        let t = lx.next_tok().map_err(|e| format!("at byte {}: {}", e.at, e.msg))?;
        match t {
            Tok::Eof => break,
            Tok::Kw(k) if k != b"true" && k != b"false" && k != b"null" => {
                out.push(POp { op: String::from_utf8_lossy(&k).to_string(), args: std::mem::take(&mut args) });
            }
            Tok::ArrClose => return Err(format!("at byte {start}: unexpected ']'")),
            Tok::DictClose => return Err(format!("at byte {start}: unexpected '>>'")),
            Tok::Int(i) => args.push(PV::Num(i as f64)),
            Tok::Real(r) => args.push(PV::Num(r)),
            _ => {
                lx.pos = start;
                let o = lx.parse_obj().map_err(|e| format!("at byte {}: {}", e.at, e.msg))?;
                args.push(obj_to_pv(&o));
            }
        }
    }
    if !args.is_empty() {
        return Err(format!("{} trailing operands without an operator", args.len()));
    }
    Ok(out)
}

// ───────────────────────── matching ─────────────────────────

fn arg_matches(a: &A, p: &PV) -> bool {
    match (a, p) {
        (A::N(v, tol), PV::Num(x)) => close(*x, *v, *tol),
        (A::NAlt(vs, tol), PV::Num(x)) => vs.iter().any(|v| close(*x, *v, *tol)),
        (A::AnyNum, PV::Num(_)) => true,
        (A::I(i), PV::Num(x)) => *x == *i as f64,
        (A::Name(s), PV::Name(b)) => s.as_bytes() == b.as_slice(),
        (A::S(alts), PV::Str(b)) => alts.iter().any(|a| a == b),
        (A::Arr(v), PV::Arr(w)) => v.len() == w.len() && v.iter().zip(w).all(|(a, p)| arg_matches(a, p)),
        (A::Props { mcid, actual }, PV::Dict(d)) => {
            let want_keys = 1 + actual.is_some() as usize;
            d.len() == want_keys
                && d.get(b"MCID".as_slice()) == Some(&PV::Num(*mcid as f64))
                && match actual {
                    None => true,
                    Some(b) => d.get(b"ActualText".as_slice()) == Some(&PV::Str(b.clone())),
                }
        }
        _ => false,
    }
}

fn op_matches(e: &Exp, p: &POp) -> bool {
    e.op == p.op && e.args.len() == p.args.len() && e.args.iter().zip(&p.args).all(|(a, p)| arg_matches(a, p))
}

fn show_a(a: &A) -> String {
    match a {
        A::N(v, _) => format!("{v:?}"),
        A::NAlt(vs, _) => format!("{vs:?}"),
        A::AnyNum => "<any>".to_string(),
        A::I(i) => format!("{i}"),
        A::Name(s) => format!("/{s:?}"),
        A::S(alts) => alts.iter().map(|b| format!("{:?}", Obj::Str(b.clone()))).collect::<Vec<_>>().join("|"),
        A::Arr(v) => format!("[{}]", v.iter().map(show_a).collect::<Vec<_>>().join(" ")),
        A::Props { mcid, actual } => format!("<</MCID {mcid}{}>>", actual.as_ref().map(|b| format!(" /ActualText {:?}", Obj::Str(b.clone()))).unwrap_or_default()),
    }
}

fn show_exp(e: &Exp) -> String {
    format!("{} {} [{}]", e.args.iter().map(show_a).collect::<Vec<_>>().join(" "), e.op, e.call)
}

// ───────────────────────── interpreter (effective state) ─────────────────────────

#[derive(Clone, Debug, PartialEq)]
enum ICol {
    Gray(f64),
    Rgb([f64; 3]),
    Cmyk([f64; 4]),
    Named(Vec<u8>, Vec<f64>),
}

#[derive(Clone, Debug)]
struct IState {
    fill: ICol,
    stroke: ICol,
    font: Option<(Vec<u8>, f64)>,
    tc: f64,
    tw: f64,
    tz: f64,
    tl: f64,
    ts: f64,
    tr: f64,
}

impl IState {
    fn new() -> IState {
        IState { fill: ICol::Gray(0.0), stroke: ICol::Gray(0.0), font: None, tc: 0.0, tw: 0.0, tz: 100.0, tl: 0.0, ts: 0.0, tr: 0.0 }
    }
}

fn nums(args: &[PV]) -> Option<Vec<f64>> {
    args.iter().map(|a| if let PV::Num(x) = a { Some(*x) } else { None }).collect()
}

fn set_comps(c: &mut ICol, v: Vec<f64>) {
    match c {
        ICol::Named(_, comps) => *comps = v,
        ICol::Gray(g) if v.len() == 1 => *g = v[0],
        ICol::Rgb(r) if v.len() == 3 => *r = [v[0], v[1], v[2]],
        ICol::Cmyk(k) if v.len() == 4 => *k = [v[0], v[1], v[2], v[3]],
        other => *other = ICol::Named(b"?".to_vec(), v),
    }
}

fn interp(st: &mut IState, stack: &mut Vec<IState>, p: &POp) {
    let v = nums(&p.args);
    let one = |v: &Option<Vec<f64>>| v.as_ref().and_then(|v| if v.len() == 1 { Some(v[0]) } else { None });
    match p.op.as_str() {
        "q" => stack.push(st.clone()),
        "Q" => {
            if let Some(s) = stack.pop() {
                *st = s;
            }
        }
        "g" => {
            if let Some(x) = one(&v) {
                st.fill = ICol::Gray(x)
            }
        }
        "G" => {
            if let Some(x) = one(&v) {
                st.stroke = ICol::Gray(x)
            }
        }
        "rg" | "RG" => {
            if let Some(v) = v.filter(|v| v.len() == 3) {
                let c = ICol::Rgb([v[0], v[1], v[2]]);
                if p.op == "rg" {
                    st.fill = c
                } else {
                    st.stroke = c
                }
            }
        }
        "k" | "K" => {
            if let Some(v) = v.filter(|v| v.len() == 4) {
                let c = ICol::Cmyk([v[0], v[1], v[2], v[3]]);
                if p.op == "k" {
                    st.fill = c
                } else {
                    st.stroke = c
                }
            }
        }
        "cs" | "CS" => {
            if let Some(PV::Name(nme)) = p.args.first() {
                let c = match nme.as_slice() {
                    b"DeviceGray" => ICol::Gray(0.0),
                    b"DeviceRGB" => ICol::Rgb([0.0; 3]),
                    b"DeviceCMYK" => ICol::Cmyk([0.0, 0.0, 0.0, 1.0]),
                    _ => ICol::Named(nme.clone(), vec![]),
                };
                if p.op == "cs" {
                    st.fill = c
                } else {
                    st.stroke = c
                }
            }
        }
        "sc" | "scn" => {
            if let Some(v) = v {
                set_comps(&mut st.fill, v)
            }
        }
        "SC" | "SCN" => {
            if let Some(v) = v {
                set_comps(&mut st.stroke, v)
            }
        }
        "Tf" => {
            if let (Some(PV::Name(nme)), Some(PV::Num(s))) = (p.args.first(), p.args.get(1)) {
                st.font = Some((nme.clone(), *s));
            }
        }
        "Tc" => st.tc = one(&v).unwrap_or(st.tc),
        "Tw" => st.tw = one(&v).unwrap_or(st.tw),
        "Tz" => st.tz = one(&v).unwrap_or(st.tz),
        "TL" => st.tl = one(&v).unwrap_or(st.tl),
        "Ts" => st.ts = one(&v).unwrap_or(st.ts),
        "Tr" => st.tr = one(&v).unwrap_or(st.tr),
        _ => {}
    }
}

fn col_sees(want: &MCol, got: &ICol) -> bool {
    match (want, got) {
        (MCol::Dev(Col::Gray(g)), ICol::Gray(x)) => close(*x, g.0, Tol::Dev),
        (MCol::Dev(Col::Rgb(r, g, b)), ICol::Rgb(x)) => close(x[0], r.0, Tol::Dev) && close(x[1], g.0, Tol::Dev) && close(x[2], b.0, Tol::Dev),
        (MCol::Dev(Col::Cmyk(c, m, y, k)), ICol::Cmyk(x)) => close(x[0], c.0, Tol::Dev) && close(x[1], m.0, Tol::Dev) && close(x[2], y.0, Tol::Dev) && close(x[3], k.0, Tol::Dev),
        (MCol::Named(nme, comps), ICol::Named(n2, c2)) => nme.as_bytes() == n2.as_slice() && comps.len() == c2.len() && comps.iter().zip(c2).all(|(w, x)| close(*x, *w, Tol::Comp)),
        _ => false,
    }
}

/// which part of the effective state differs (None = all as modelled)
fn see_diff(see: &See, st: &IState) -> Option<(String, String)> {
    if let Some(w) = &see.fill {
        if !col_sees(w, &st.fill) {
            let what = if matches!(w, MCol::Named(..)) { "named-colour-space-overridden" } else { "fill-colour" };
            return Some((what.into(), format!("fill colour modelled {w:?}, stream has {:?}", st.fill)));
        }
    }
    if let Some(w) = &see.stroke {
        if !col_sees(w, &st.stroke) {
            let what = if matches!(w, MCol::Named(..)) { "named-colour-space-overridden" } else { "stroke-colour" };
            return Some((what.into(), format!("stroke colour modelled {w:?}, stream has {:?}", st.stroke)));
        }
    }
    if let Some((nme, size)) = &see.font {
        match &st.font {
            Some((n2, s2)) if nme.as_bytes() == n2.as_slice() && close(*s2, *size, Tol::Exact) => {}
            other => {
                let what = if !name_is_regular(nme) {
                    "font,name-needs-escaping"
                } else if size.is_finite() && size.abs() >= 2147483648.0 {
                    "font,size>=2^31"
                } else {
                    "font"
                };
                return Some((what.into(), format!("font modelled /{nme} {size:?}, stream has {other:?}")));
            }
        }
    }
    let params: [(&str, Option<f64>, f64); 6] = [("Tc", see.tc, st.tc), ("Tw", see.tw, st.tw), ("Tz", see.tz, st.tz), ("TL", see.tl, st.tl), ("Ts", see.ts, st.ts), ("Tr", see.tr.map(|x| x as f64), st.tr)];
    for (nme, want, got) in params {
        if let Some(w) = want {
            if !close(got, w, Tol::Coord) {
                return Some((nme.to_string(), format!("{nme} modelled {w:?} (sanitised {:?}), stream has {got:?}", fz(w))));
            }
        }
    }
    None
}

// ───────────────────────── alignment ─────────────────────────

fn is_colour_op(op: &str) -> bool {
    matches!(op, "g" | "G" | "rg" | "RG" | "k" | "K")
}

fn is_text_state_op(op: &str) -> bool {
    matches!(op, "Tf" | "Tc" | "Tw" | "Tz" | "TL" | "Ts" | "Tr")
}

struct Mismatch {
    /// index into the expected list (== len when the stream has surplus operators)
    at_exp: usize,
    at_got: Option<usize>,
    kind: &'static str, // mismatch | missing | surplus
}

struct Aligned {
    mismatch: Option<Mismatch>,
    /// (expected index, what differs, detail)
    state_diffs: Vec<(usize, String, String)>,
}

fn align(exp: &[Exp], got: &[POp], kind: Kind) -> Aligned {
    let skip = |op: &str| is_colour_op(op) || (kind != Kind::Gfx && is_text_state_op(op));
    let mut st = IState::new();
    let mut stack = Vec::new();
    let mut ptr = 0usize;
    let mut diffs = Vec::new();
    for (gi, p) in got.iter().enumerate() {
        if ptr < exp.len() && op_matches(&exp[ptr], p) {
            interp(&mut st, &mut stack, p);
            if let Some(see) = &exp[ptr].see {
                if let Some((what, detail)) = see_diff(see, &st) {
                    diffs.push((ptr, what, detail));
                }
            }
            ptr += 1;
        } else if skip(&p.op) {
            interp(&mut st, &mut stack, p);
        } else {
            let kind = if ptr < exp.len() { "mismatch" } else { "surplus" };
            return Aligned { mismatch: Some(Mismatch { at_exp: ptr, at_got: Some(gi), kind }), state_diffs: diffs };
        }
    }
    if ptr < exp.len() {
        return Aligned { mismatch: Some(Mismatch { at_exp: ptr, at_got: None, kind: "missing" }), state_diffs: diffs };
    }
    Aligned { mismatch: None, state_diffs: diffs }
}

/// coarse cause of a mismatch for the signature class
fn cause(exp: &[Exp], got: &[POp], mm: &Mismatch, bytes: &[u8], kind: Kind) -> String {
    let skip = |op: &str| is_colour_op(op) || (kind != Kind::Gfx && is_text_state_op(op));
    let e = exp.get(mm.at_exp);
    let call = e.map(|e| e.call).unwrap_or("-");
    let flags = e.map(|e| e.flags).unwrap_or(0);
    // out-of-order emission: the operator read here is a later expected operator, and the operator
    // expected here turns up later in the stream
    let _ = &skip;
    let later_exp = mm.at_got.map(|g| exp.iter().skip(mm.at_exp + 1).any(|e| op_matches(e, &got[g]))).unwrap_or(false);
    let later_got = match (e, mm.at_got) {
        (Some(e), Some(g)) => got.iter().skip(g + 1).any(|p| op_matches(e, p)),
        _ => false,
    };
    if later_exp && later_got {
        let calls: std::collections::BTreeSet<&str> = exp.iter().map(|e| e.call).collect();
        let fam = if calls.contains("Page::draw_image") {
            "Page::draw_image"
        } else if calls.iter().any(|c| c.contains("marked_content")) {
            "marked-content"
        } else {
            "other"
        };
        return format!("reordered,{fam}");
    }
    if flags & FL_HOSTILE != 0 {
        return format!("call={call},name-needs-escaping");
    }
    if flags & FL_NONFINITE != 0 {
        let printed = bytes.windows(3).any(|w| w == b"NaN" || w == b"inf");
        return format!("call={call},non-finite{}", if printed { "-printed" } else { "" });
    }
    if flags & FL_HUGE != 0 {
        return format!("call={call},|x|>=2^31");
    }
    format!("call={call},{}", mm.kind)
}

// ───────────────────────── sequence oracle ─────────────────────────

fn num_labels(x: f64, o: &mut Outcome, interesting: &mut bool) {
    if !x.is_finite() {
        o.label("num:non-finite");
        *interesting = true;
    } else if x.abs() >= 2147483648.0 {
        o.label("num:>=2^31");
        *interesting = true;
    } else if x.abs() >= 1e7 {
        o.label("num:huge");
        *interesting = true;
    } else if x != 0.0 && x.abs() < 0.005 {
        o.label(if x.abs() < f64::MIN_POSITIVE { "num:subnormal" } else { "num:tiny" });
        *interesting = true;
    } else {
        // a value whose third decimal is 5 (rounding carries at {:.2})
        let t = (x.abs() * 1000.0).round();
        if (x.abs() * 1000.0 - t).abs() < 1e-6 && (t as u64) % 10 == 5 {
            o.label("num:rounding-carry");
            *interesting = true;
        }
    }
}

fn walk_nums(a: &A, o: &mut Outcome, interesting: &mut bool) {
    match a {
        A::N(v, _) => num_labels(*v, o, interesting),
        A::NAlt(vs, _) => num_labels(vs[0], o, interesting),
        A::Arr(v) => v.iter().for_each(|x| walk_nums(x, o, interesting)),
        _ => {}
    }
}

fn dedup_labels(o: &mut Outcome) {
    o.labels.sort();
    o.labels.dedup();
}

pub fn check(c: &Case) -> Outcome {
    let mut o = Outcome::new();
    o.label(format!("kind:{:?}", c.kind));
    let (bytes, m) = match drive(c) {
        Ok(x) => x,
        Err((clause, detail)) => {
            o.nontrivial(true);
            o.fail(&clause, "page", detail);
            return o;
        }
    };
    watchdog_note(&bytes);
    // ── classification
    let mut interesting = false;
    for e in &m.exp {
        o.label(format!("op:{}", e.op));
        for a in &e.args {
            walk_nums(a, &mut o, &mut interesting);
        }
        if e.flags & FL_HOSTILE != 0 {
            o.label("name:needs-escaping");
        }
        if e.op == "BDC" {
            interesting = true;
            if matches!(e.args.get(1), Some(A::Props { actual: Some(_), .. })) {
                o.label("mc:actual-text");
            }
        }
        if let Some(see) = &e.see {
            if matches!(see.fill, Some(MCol::Named(..))) || matches!(see.stroke, Some(MCol::Named(..))) {
                o.label("paint-in-named-colour-space");
                interesting = true;
            }
            for col in [&see.fill, &see.stroke].into_iter().flatten() {
                if let MCol::Dev(cc) = col {
                    if cc.comps().iter().any(|x| !x.is_finite()) {
                        o.label("colour:non-finite");
                        interesting = true;
                    }
                }
            }
            for p in [see.tc, see.tw, see.tz, see.tl, see.ts].into_iter().flatten() {
                num_labels(p, &mut o, &mut interesting);
            }
        }
    }
    for s in &m.strings {
        if s.iter().any(|b| matches!(b, b'(' | b')')) {
            o.label("string:paren");
            interesting = true;
        }
        if s.contains(&b'\\') {
            o.label("string:backslash");
            interesting = true;
        }
        if s.iter().any(|b| *b < 0x20 || *b == 0x7F) {
            o.label("string:control");
            interesting = true;
        }
        if s.iter().any(|b| *b >= 0x80) {
            o.label("string:high-byte");
            interesting = true;
        }
    }
    let depth = {
        let (mut d, mut mx, mut unbalanced) = (0i32, 0i32, false);
        for e in &m.exp {
            match e.op {
                "q" => {
                    d += 1;
                    mx = mx.max(d)
                }
                "Q" => {
                    d -= 1;
                    if d < 0 {
                        unbalanced = true;
                        d = 0;
                    }
                }
                _ => {}
            }
        }
        o.label_if(unbalanced, "Q-without-q");
        mx
    };
    o.label_if(depth >= 2, "q-depth>=2");
    o.label(match m.exp.len() {
        0..=2 => "ops:0-2",
        3..=15 => "ops:3-15",
        16..=50 => "ops:16-50",
        _ => "ops:>50",
    });
    o.nontrivial(interesting && m.exp.len() >= 3);
    let case_hostile = m.exp.iter().any(|e| e.flags & FL_HOSTILE != 0 || e.see.as_ref().and_then(|s| s.font.as_ref()).map(|(n, _)| !name_is_regular(n)).unwrap_or(false));
    // a font size that is integral and ≥ 2^31 is printed without a decimal point
    let bigint = |v: f64| v.is_finite() && v.abs() >= 2147483648.0 && v.fract() == 0.0;
    let case_bigfont = m.exp.iter().any(|e| (e.op == "Tf" && matches!(e.args.get(1), Some(A::N(v, _)) if bigint(*v))) || e.see.as_ref().and_then(|s| s.font.as_ref()).map(|(_, sz)| bigint(*sz)).unwrap_or(false));
    o.label_if(case_bigfont, "font-size:integral>=2^31");
    let specific = |c: &str| c.contains("non-finite-printed") || c.contains("reordered") || c.contains("named-colour");
    o.label_if(case_hostile, "case-has-name-needing-escape");
    let cls = |c: String| {
        if specific(&c) {
            c
        } else if case_bigfont {
            "font-size>=2^31-printed-as-integer".to_string()
        } else {
            c
        }
    };
    // the independent lexer reads an over-long integer as a real (Annex C)
    let cls_lex = |c: String| c;

    // ── the library's own parser
    let lib_ops: Vec<POp> = match ContentParser::parse(&bytes) {
        Ok(v) => v.iter().map(norm_lib).collect(),
        Err(e) => {
            o.fail("C21/parse-equals-written", "parse-error", format!("ContentParser::parse failed on library output: {e}; stream {:?}", String::from_utf8_lossy(&bytes)));
            dedup_labels(&mut o);
            return o;
        }
    };
    let al = align(&m.exp, &lib_ops, c.kind);
    let stream = || engine::trunc(&String::from_utf8_lossy(&bytes), 500);
    let mut lib_ok = true;
    if let Some(mm) = &al.mismatch {
        lib_ok = false;
        let class = cls(cause(&m.exp, &lib_ops, mm, &bytes, c.kind));
        o.fail(
            "C21/parse-equals-written",
            class,
            format!(
                "{} at expected #{}: expected {}; parsed {}; stream {:?}",
                mm.kind,
                mm.at_exp,
                m.exp.get(mm.at_exp).map(show_exp).unwrap_or_else(|| "<end>".into()),
                mm.at_got.map(|g| show_ops(&lib_ops, g)).unwrap_or_else(|| "<end of stream>".into()),
                stream()
            ),
        );
    }
    // ── independent lexer
    let mut lex_diffs: Option<Vec<(usize, String, String)>> = None;
    match lex_ops(&bytes) {
        Err(e) => {
            let flags = m.exp.iter().fold(0u8, |a, e| a | e.flags);
            let class = if flags & FL_NONFINITE != 0 && bytes.windows(3).any(|w| w == b"NaN" || w == b"inf") {
                let call = m.exp.iter().find(|e| e.flags & FL_NONFINITE != 0 && e.call.starts_with("clip_")).or_else(|| m.exp.iter().find(|e| e.flags & FL_NONFINITE != 0)).map(|e| e.call).unwrap_or("-");
                format!("call={call},non-finite-printed")
            } else {
                "lex-error".to_string()
            };
            o.fail("C21/lexer-equals-written", cls_lex(class), format!("independent lexer: {e}; stream {:?}", stream()));
        }
        Ok(lex) => {
            let al2 = align(&m.exp, &lex, c.kind);
            if let Some(mm) = &al2.mismatch {
                let class = cls_lex(cause(&m.exp, &lex, mm, &bytes, c.kind));
                o.fail(
                    "C21/lexer-equals-written",
                    class,
                    format!(
                        "{} at expected #{}: expected {}; independent lexer read {}; stream {:?}",
                        mm.kind,
                        mm.at_exp,
                        m.exp.get(mm.at_exp).map(show_exp).unwrap_or_else(|| "<end>".into()),
                        mm.at_got.map(|g| show_ops(&lex, g)).unwrap_or_else(|| "<end of stream>".into()),
                        stream()
                    ),
                );
            } else {
                lex_diffs = Some(al2.state_diffs);
            }
        }
    }
    // ── effective state: judged on the library's parse when it aligned, otherwise on the lexer's
    let diffs = if lib_ok { Some(&al.state_diffs) } else { lex_diffs.as_ref() };
    match diffs {
        None => o.excluded("C21/effective-state"),
        Some(diffs) => {
            let mut seen = std::collections::BTreeSet::new();
            for (i, what, detail) in diffs {
                let class = cls(if what == "named-colour-space-overridden" { what.clone() } else { format!("call={},{}", m.exp[*i].call, what) });
                if seen.insert(class.clone()) {
                    o.fail("C21/effective-state", class, format!("at expected #{i} ({}): {detail}; stream {:?}", show_exp(&m.exp[*i]), stream()));
                }
            }
        }
    }
    // ── strict parser agrees with the best-effort parser on library output
    match ContentParser::parse_strict(&bytes) {
        Ok(v) => {
            let strict: Vec<POp> = v.iter().map(norm_lib).collect();
            if strict != lib_ops {
                o.fail("C21/strict-agrees", cls("different-list".into()), format!("parse_strict and parse differ on library output; stream {:?}", stream()));
            }
        }
        Err(e) => {
            if lib_ok {
                o.fail("C21/strict-agrees", cls("strict-error".into()), format!("parse_strict failed ({e}) where parse read every modelled operator; stream {:?}", stream()));
            } else {
                o.excluded("C21/strict-agrees");
            }
        }
    }
    dedup_labels(&mut o);
    o
}

// ───────────────────────── generators ─────────────────────────

fn num() -> BoxedStrategy<F> {
    prop_oneof![
        30 => (-2000i32..2000, 0u32..1000).prop_map(|(a, b)| a as f64 + b as f64 / 1000.0),
        10 => prop::sample::select(vec![0.0, -0.0, 1.0, -1.0, 0.5, 12.0, 100.0, 595.0, 842.0]),
        8 => prop::sample::select(vec![0.995, 9.995, -0.005, 0.005, 0.015, 1.005, 2.675, -9.995, 99.995, 0.125, 0.375, -0.125, 0.001, 4.9999, 0.0049999, 0.00500001, 0.994999, -0.995]),
        6 => prop::sample::select(vec![1e-7, -1e-7, 1e-12, f64::MIN_POSITIVE, 5e-324, -5e-324, 1e-310, 1e-40, 1e-46]),
        6 => prop::sample::select(vec![1e7, -1e7, 1e15, -1e15, 16777217.0, 2147483647.0, 2147483648.0, -2147483649.0, 4294967296.0, 1e20, 3.0e38, -3.0e38, 123456789.125]),
        5 => prop::sample::select(vec![f64::NAN, f64::INFINITY, f64::NEG_INFINITY]),
        3 => any::<f64>().prop_map(|x| if !x.is_finite() { 0.25 } else if x.abs() > 3.0e38 { x / 1e271 } else { x }).prop_map(|x| if x.abs() > 3.0e38 { 3.0e38 } else { x }),
    ]
    .prop_map(F)
    .boxed()
}

fn num_arr<const N: usize>() -> BoxedStrategy<[F; N]> {
    prop::collection::vec(num(), N).prop_map(|v| std::array::from_fn(|i| v[i])).boxed()
}

fn comp() -> BoxedStrategy<F> {
    prop_oneof![
        10 => (0u32..=10000).prop_map(|a| a as f64 / 10000.0),
        4 => prop::sample::select(vec![0.0, 1.0, 0.5, 0.25, 1.0 / 3.0]),
        3 => prop::sample::select(vec![0.9995, 0.0005, 0.00049, 0.99949, 0.00005, 0.99995, 0.1235, 0.12345]),
        2 => prop::sample::select(vec![1.5, -0.25, 255.0, 1e15, -1e-9, 5e-324]),
        2 => prop::sample::select(vec![f64::NAN, f64::INFINITY, f64::NEG_INFINITY]),
    ]
    .prop_map(F)
    .boxed()
}

fn colour() -> BoxedStrategy<Col> {
    prop_oneof![
        3 => comp().prop_map(Col::Gray),
        4 => (comp(), comp(), comp()).prop_map(|(r, g, b)| Col::Rgb(r, g, b)),
        2 => (comp(), comp(), comp(), comp()).prop_map(|(c, m, y, k)| Col::Cmyk(c, m, y, k)),
    ]
    .boxed()
}

fn size() -> BoxedStrategy<F> {
    prop_oneof![
        6 => prop::sample::select(vec![12.0, 10.5, 8.0, 72.0, 9.75, 0.0, -1.0, 1e-7, 0.1]).prop_map(F),
        3 => num(),
    ]
    .boxed()
}

/// `hostile`: weight (out of ~100) of names that need #-escaping
fn pdf_name(hostile: u32) -> BoxedStrategy<String> {
    if hostile == 0 {
        return "[A-Za-z][A-Za-z0-9_.+-]{0,9}".boxed();
    }
    prop_oneof![
        100 - hostile => "[A-Za-z][A-Za-z0-9_.+-]{0,9}",
        hostile => ("[A-Za-z]{0,3}", prop::sample::select(vec![" ", "#", "(", ")", "/", "<", ">", "[", "]", "%", "{", "\t", "é", "#2", "\u{4e2d}"]), "[A-Za-z0-9]{0,3}").prop_map(|(a, b, c)| format!("{a}{b}{c}")),
    ]
    .boxed()
}

fn font_sel(hostile: u32) -> BoxedStrategy<FontSel> {
    prop_oneof![
        8 => (0u8..14).prop_map(FontSel::Std),
        2 => pdf_name(hostile).prop_map(FontSel::Custom),
    ]
    .boxed()
}

fn winansi_text() -> BoxedStrategy<String> {
    let rep = winansi_repertoire();
    let high: Vec<char> = rep.iter().copied().filter(|c| *c as u32 >= 0x80).collect();
    let ch = prop_oneof![
        6 => (0x20u8..0x7F).prop_map(|b| b as char),
        3 => prop::sample::select(vec!['(', ')', '\\']),
        2 => prop::sample::select(vec!['\n', '\r', '\t', '\u{8}', '\u{c}', '\0', '\u{7f}', '\u{1b}', '\u{1}']),
        3 => prop::sample::select(high),
        1 => prop::sample::select(rep),
    ];
    prop::collection::vec(ch, 0..24).prop_map(|v| v.into_iter().collect()).boxed()
}

fn unicode_text() -> BoxedStrategy<String> {
    prop_oneof![
        3 => "[a-z()\\\\é\u{4e2d}\u{1F600}\u{20AC}]{0,10}",
        1 => prop::collection::vec(any::<char>(), 0..8).prop_map(|v| v.into_iter().collect::<String>()),
    ]
    .boxed()
}

/// text for a show operator: WinAnsi repertoire mostly, arbitrary Unicode sometimes (custom fonts / hex paths)
fn any_text() -> BoxedStrategy<String> {
    prop_oneof![4 => winansi_text(), 1 => unicode_text()].boxed()
}

fn gcall_single(hostile: u32, icc: u32) -> BoxedStrategy<GCall> {
    let icc = icc.max(1);
    prop_oneof![
        6 => (num(), num()).prop_map(|(x, y)| GCall::MoveTo(x, y)),
        6 => (num(), num()).prop_map(|(x, y)| GCall::LineTo(x, y)),
        4 => num_arr::<6>().prop_map(GCall::CurveTo),
        6 => num_arr::<4>().prop_map(GCall::Rect),
        3 => Just(GCall::ClosePath),
        4 => Just(GCall::Stroke),
        4 => Just(GCall::Fill),
        3 => Just(GCall::FillStroke),
        2 => Just(GCall::Clip),
        1 => Just(GCall::ClipEvenOdd),
        2 => Just(GCall::EndPath),
        1 => Just(GCall::ClipStroke),
        5 => colour().prop_map(GCall::SetFill),
        5 => colour().prop_map(GCall::SetStroke),
        4 => num().prop_map(GCall::LineWidth),
        2 => (0u8..3).prop_map(GCall::LineCap),
        2 => (0u8..3).prop_map(GCall::LineJoin),
        3 => num().prop_map(GCall::MiterLimit),
        3 => num().prop_map(GCall::Flatness),
        3 => (prop::collection::vec(num(), 0..4), num()).prop_map(|(a, p)| GCall::Dash(a, p)),
        1 => Just(GCall::Solid),
        4 => Just(GCall::Save),
        4 => Just(GCall::Restore),
        3 => (num(), num()).prop_map(|(x, y)| GCall::Translate(x, y)),
        2 => (num(), num()).prop_map(|(x, y)| GCall::Scale(x, y)),
        2 => num().prop_map(GCall::Rotate),
        3 => num_arr::<6>().prop_map(GCall::Transform),
        3 => (pdf_name(hostile), num_arr::<4>()).prop_map(|(n, v)| GCall::DrawImage(n, v)),
        2 => pdf_name(hostile).prop_map(GCall::PaintShading),
        1 => (0u8..4).prop_map(GCall::Intent),
        icc => (pdf_name(0), prop::collection::vec(comp(), 1..5)).prop_map(|(n, v)| GCall::FillIcc(n, v)),
        icc => (pdf_name(0), prop::collection::vec(comp(), 1..5)).prop_map(|(n, v)| GCall::StrokeIcc(n, v)),
        2 => num_arr::<4>().prop_map(GCall::ClipRect),
        2 => Just(GCall::BeginText),
        2 => Just(GCall::EndText),
        3 => (font_sel(hostile), size()).prop_map(|(f, s)| GCall::SetFont(f, s)),
        1 => (pdf_name(hostile), size()).prop_map(|(n, s)| GCall::SetCustomFont(n, s)),
        2 => (num(), num()).prop_map(|(x, y)| GCall::TextPos(x, y)),
        4 => any_text().prop_map(GCall::ShowText),
        2 => num().prop_map(GCall::WordSpacing),
        2 => num().prop_map(GCall::CharSpacing),
        4 => (any_text(), num(), num()).prop_map(|(t, x, y)| GCall::DrawText(t, x, y)),
        2 => (prop::collection::vec((any::<u16>(), cid_adj(), cid_adj()), 0..6), num(), num()).prop_map(|(e, x, y)| GCall::ShowCid(e, x, y)),
    ]
    .boxed()
}

fn cid_adj() -> BoxedStrategy<F> {
    prop_oneof![
        5 => Just(0.0),
        4 => (-2000i32..2000).prop_map(|a| a as f64 / 4.0),
        1 => prop::sample::select(vec![0.004, -0.005, 0.995, 1e-30, 1e9, f64::NAN, f64::INFINITY, -0.0]),
    ]
    .prop_map(|x| F((x as f32) as f64))
    .boxed()
}

fn gsnippet(hostile: u32, icc: u32) -> BoxedStrategy<Vec<GCall>> {
    let icc = icc.max(1);
    prop_oneof![
        10 => gcall_single(hostile, icc).prop_map(|c| vec![c]),
        3 => (colour(), num_arr::<4>()).prop_map(|(c, r)| vec![GCall::SetFill(c), GCall::Rect(r), GCall::Fill]),
        3 => (colour(), num(), num(), num(), num()).prop_map(|(c, a, b, x, y)| vec![GCall::SetStroke(c), GCall::MoveTo(a, b), GCall::LineTo(x, y), GCall::Stroke]),
        2 => (colour(), colour(), num_arr::<4>()).prop_map(|(f, s, r)| vec![GCall::SetFill(f), GCall::SetStroke(s), GCall::Rect(r), GCall::FillStroke]),
        2 => (colour(), num_arr::<4>()).prop_map(|(c, r)| vec![GCall::Save, GCall::SetFill(c), GCall::Rect(r), GCall::Fill, GCall::Restore, GCall::Rect(r), GCall::Fill]),
        2 => (font_sel(hostile), size(), num(), num(), any_text()).prop_map(|(f, s, x, y, t)| vec![GCall::BeginText, GCall::SetFont(f, s), GCall::TextPos(x, y), GCall::ShowText(t), GCall::EndText]),
        icc => (pdf_name(0), prop::collection::vec(comp(), 1..5), num_arr::<4>()).prop_map(|(n, v, r)| vec![GCall::FillIcc(n, v), GCall::Rect(r), GCall::Fill]),
    ]
    .boxed()
}

fn tcall_single(hostile: u32) -> BoxedStrategy<TCall> {
    prop_oneof![
        4 => (font_sel(hostile), size()).prop_map(|(f, s)| TCall::SetFont(f, s)),
        5 => (num(), num()).prop_map(|(x, y)| TCall::At(x, y)),
        8 => any_text().prop_map(TCall::Write),
        2 => any_text().prop_map(TCall::WriteLine),
        2 => num().prop_map(TCall::CharSpacing),
        2 => num().prop_map(TCall::WordSpacing),
        2 => prop_oneof![3 => prop::sample::select(vec![1.0, 0.5, 1.25, 0.0, 0.99995, 1.00005, 3.0e36, -1.0]).prop_map(F), 1 => num()].prop_map(TCall::HScale),
        2 => num().prop_map(TCall::Leading),
        2 => num().prop_map(TCall::Rise),
        2 => (0u8..8).prop_map(TCall::RenderMode),
        3 => colour().prop_map(TCall::Fill),
        2 => colour().prop_map(TCall::Stroke),
    ]
    .boxed()
}

fn tsnippet(hostile: u32) -> BoxedStrategy<Vec<TCall>> {
    prop_oneof![
        6 => tcall_single(hostile).prop_map(|c| vec![c]),
        3 => (font_sel(hostile), size(), num(), num(), any_text()).prop_map(|(f, s, x, y, t)| vec![TCall::SetFont(f, s), TCall::At(x, y), TCall::Write(t)]),
        1 => (0u8..14, winansi_text()).prop_map(|(f, t)| vec![TCall::SetFont(FontSel::Std(f), F(12.0)), TCall::Write(t)]),
    ]
    .boxed()
}

const STD_TAGS: [&str; 12] = ["P", "H1", "H2", "Span", "Figure", "Artifact", "Table", "TD", "L", "LI", "Link", "Document"];

fn tag(hostile: u32) -> BoxedStrategy<String> {
    prop_oneof![
        7 => prop::sample::select(STD_TAGS.to_vec()).prop_map(|s| s.to_string()),
        3 => pdf_name(hostile),
    ]
    .boxed()
}

#[derive(Clone, Copy)]
struct Steer {
    hostile: u32,
    icc: u32,
    /// percentage of gfx/page cases that may use a named colour space at all
    icc_pct: u8,
    /// weight of Page snippets that interleave graphics with marked content / Page::draw_image with text
    interleave: u32,
}

fn psnippet(s: Steer) -> BoxedStrategy<Vec<PCall>> {
    let g = |h, i| gsnippet(h, i).prop_map(|v| v.into_iter().map(PCall::G).collect::<Vec<_>>());
    let t = |h| tsnippet(h).prop_map(|v| v.into_iter().map(PCall::T).collect::<Vec<_>>());
    // custom fonts are not registered with the document: Page cases use the standard fonts in text
    prop_oneof![
        30 => g(s.hostile, s.icc),
        30 => t(s.hostile),
        // marked content around text (the documented usage)
        12 => (tag(s.hostile), t(0)).prop_map(|(tg, mut inner)| {
            let mut v = vec![PCall::BeginMC(tg)];
            v.append(&mut inner);
            v.push(PCall::EndMC);
            v
        }),
        8 => (tag(s.hostile), unicode_text(), t(0)).prop_map(|(tg, at, mut inner)| {
            let mut v = vec![PCall::BeginMCText(tg, at)];
            v.append(&mut inner);
            v.push(PCall::EndMC);
            v
        }),
        2 => Just(vec![PCall::EndMC]),
        // marked content around graphics, Page::draw_image
        s.interleave => (tag(0), g(0, 0)).prop_map(|(tg, mut inner)| {
            let mut v = vec![PCall::BeginMC(tg)];
            v.append(&mut inner);
            v.push(PCall::EndMC);
            v
        }),
        s.interleave => (pdf_name(0), num_arr::<4>()).prop_map(|(n, v)| vec![PCall::DrawImage(n, v)]),
    ]
    .boxed()
}

fn flatten<T>(v: Vec<Vec<T>>) -> Vec<T> {
    let mut out: Vec<T> = v.into_iter().flatten().collect();
    out.truncate(60);
    out
}

/// named colour spaces are confined to `pct` % of the cases (the setter poisons every later paint)
fn throttle_icc(calls: Vec<PCall>, roll: u8, pct: u8) -> Vec<PCall> {
    if roll < pct {
        return calls;
    }
    calls.into_iter().filter(|c| !matches!(c, PCall::G(GCall::FillIcc(..)) | PCall::G(GCall::StrokeIcc(..)))).collect()
}

fn strategy_gfx(s: Steer) -> BoxedStrategy<Case> {
    (prop::collection::vec(gsnippet(s.hostile, s.icc), 1..24), 0u8..100)
        .prop_map(move |(v, roll)| Case { kind: Kind::Gfx, calls: throttle_icc(flatten(v).into_iter().map(PCall::G).collect(), roll, s.icc_pct), compress: false })
        .prop_filter("non-empty", |c| !c.calls.is_empty())
        .boxed()
}

fn strategy_text(s: Steer) -> BoxedStrategy<Case> {
    prop::collection::vec(tsnippet(s.hostile), 1..20).prop_map(|v| Case { kind: Kind::Text, calls: flatten(v).into_iter().map(PCall::T).collect(), compress: false }).boxed()
}

fn strategy_page(s: Steer) -> BoxedStrategy<Case> {
    (prop::collection::vec(psnippet(s), 1..16), any::<bool>(), 0u8..100).prop_map(move |(v, compress, roll)| Case { kind: Kind::Page, calls: throttle_icc(flatten(v), roll, s.icc_pct), compress }).boxed()
}

// ───────────────────────── termination: arbitrary bytes ─────────────────────────

#[derive(Clone, Debug, Serialize, Deserialize)]
pub struct BytesCase {
    pub class: String,
    pub bytes: Vec<u8>,
}

static PROGRESS: AtomicU64 = AtomicU64::new(0);
static WATCHDOG_ON: AtomicBool = AtomicBool::new(false);
static CURRENT: Mutex<BTreeMap<String, Vec<u8>>> = Mutex::new(BTreeMap::new());

/// remember the input the calling thread is about to hand to the parser (for the hang watchdog)
fn watchdog_note(bytes: &[u8]) {
    if WATCHDOG_ON.load(Ordering::Relaxed) {
        let name = std::thread::current().name().unwrap_or("main").to_string();
        if let Ok(mut m) = CURRENT.lock() {
            m.insert(name, bytes.to_vec());
        }
    }
    PROGRESS.fetch_add(1, Ordering::Relaxed);
}

fn start_watchdog(dir: std::path::PathBuf) {
    if WATCHDOG_ON.swap(true, Ordering::SeqCst) {
        return;
    }
    std::thread::Builder::new()
        .name("c21-watchdog".into())
        .spawn(move || {
            let mut last = PROGRESS.load(Ordering::Relaxed);
            let mut idle = 0u32;
            while WATCHDOG_ON.load(Ordering::Relaxed) {
                std::thread::sleep(std::time::Duration::from_secs(1));
                let now = PROGRESS.load(Ordering::Relaxed);
                if now != last {
                    last = now;
                    idle = 0;
                    continue;
                }
                idle += 1;
                if idle >= 120 {
                    let out = dir.join("replays").join("new");
                    let _ = std::fs::create_dir_all(&out);
                    if let Ok(m) = CURRENT.lock() {
                        for (k, v) in m.iter() {
                            let _ = std::fs::write(out.join(format!("C21_hang_input_{k}.bin")), v);
                        }
                    }
                    eprintln!("[C21] watchdog: no evaluation finished for 120 s; inputs in flight written to {}/C21_hang_input_*.bin — could not decide", out.display());
                    std::process::exit(2);
                }
            }
        })
        .expect("spawn watchdog");
}

fn stop_watchdog() {
    WATCHDOG_ON.store(false, Ordering::SeqCst);
}

pub fn check_bytes(c: &BytesCase) -> Outcome {
    let mut o = Outcome::new();
    o.label(format!("class:{}", c.class));
    watchdog_note(&c.bytes);
    // a panic is caught by the engine and reported as C21/no-panic
    let best = ContentParser::parse(&c.bytes);
    let strict = ContentParser::parse_strict(&c.bytes);
    match &best {
        Ok(v) => {
            o.label(match v.len() {
                0 => "parse:ok,0-ops",
                1..=5 => "parse:ok,1-5-ops",
                _ => "parse:ok,>5-ops",
            });
            o.nontrivial(!v.is_empty());
            o.label_if(v.iter().any(|x| matches!(x, CO::InlineImage { .. })), "has-inline-image");
            o.label_if(v.iter().any(|x| matches!(x, CO::BeginMarkedContentWithProps(..) | CO::DefineMarkedContentPointWithProps(..))), "has-props-dict");
        }
        Err(_) => {
            o.label("parse:err");
            o.nontrivial(true);
        }
    }
    match (&best, &strict) {
        (Ok(b), Ok(s)) => {
            o.label("strict:ok");
            // no tokenizer error and every operator accepted ⇒ the best-effort path saw the same tokens
            if b != s {
                o.fail("C21/strict-ok-implies-same-list", format!("class={}", c.class), format!("parse_strict returned {} operators, parse {}: {:?}", s.len(), b.len(), String::from_utf8_lossy(&c.bytes)));
            }
        }
        (Err(e), Ok(_)) => o.fail("C21/strict-ok-implies-same-list", format!("class={}", c.class), format!("parse failed ({e}) where parse_strict succeeded")),
        (_, Err(_)) => o.label("strict:err"),
    }
    o
}

const SOUP: [&str; 74] = [
    "q", "Q", "cm", "w", "J", "j", "M", "d", "ri", "i", "gs", "m", "l", "c", "v", "y", "h", "re", "S", "s", "f", "F", "f*", "B", "B*", "b", "b*", "n", "W", "W*", "BT", "ET", "Tc", "Tw", "Tz", "TL", "Tf", "Tr", "Ts",
    "Td", "TD", "Tm", "T*", "Tj", "TJ", "'", "\"", "d0", "d1", "CS", "cs", "SC", "SCN", "sc", "scn", "G", "g", "RG", "rg", "K", "k", "sh", "BI", "ID", "EI", "Do", "MP", "DP", "BMC", "BDC", "EMC", "BX", "EX", "R",
];

fn soup_token() -> BoxedStrategy<Vec<u8>> {
    prop_oneof![
        10 => prop::sample::select(SOUP.to_vec()).prop_map(|s| s.as_bytes().to_vec()),
        8 => (-3000i32..3000).prop_map(|i| i.to_string().into_bytes()),
        6 => (-3000i32..3000, 0u32..1000).prop_map(|(a, b)| format!("{a}.{b:03}").into_bytes()),
        3 => prop::sample::select(vec!["+", "-", ".", "-.", "1e5", "0x10", "99999999999", "-2147483649", "1.2.3", "--1", "+.5", "4.", "16#FF", "NaN", "inf", "1/2", "00000000000000000000000000000000000000001", "340282350000000000000000000000000000000.0", "9999999999999999999999999999999999999999999.0"]).prop_map(|s| s.as_bytes().to_vec()),
        6 => "/[A-Za-z0-9#]{0,6}".prop_map(|s| s.into_bytes()),
        2 => prop::sample::select(vec!["/", "/#", "/#4", "/#zz", "/A#", "/\u{e9}", "/A#00B", "/#80", "/#ff#fe"]).prop_map(|s| s.as_bytes().to_vec()),
        6 => "\\([ -~]{0,8}\\)".prop_map(|s| s.into_bytes()),
        3 => prop::sample::select(vec!["(", ")", "(()", "(\\", "(\\)", "(\\777)", "(\\8)", "(\\0", "(a\\\nb)", "(\r\n)", "((((", "))))"]).prop_map(|s| s.as_bytes().to_vec()),
        4 => "<[0-9A-Fa-f ]{0,8}>".prop_map(|s| s.into_bytes()),
        3 => prop::sample::select(vec!["<", ">", "<<", ">>", "<<>>", "<>", "<g>", "<0", "< <", "> >", "<<<", ">>>", "<FEFF0041>>>"]).prop_map(|s| s.as_bytes().to_vec()),
        4 => prop::sample::select(vec!["[", "]", "[]", "[[", "]]", "[ (a) -1 (b) ]", "[1 2] 0", "{", "}", ";", "%", "%c\n", "%\r", "\0", "\x0c", "\u{ff}"]).prop_map(|s| s.as_bytes().to_vec()),
        3 => prop::sample::select(vec!["/P <</MCID 0>> BDC", "/Span <</ActualText (x) /MCID 1>> BDC", "/T <</K [1 [2 <</A /B>>]]>> BDC", "/T /Props DP", "BI /W 1 /H 1 /CS /G /BPC 8 ID \x00 EI", "BI /W 2 ID EI", "BI ID", "ID x EI", "BI /F [/AHx /Fl] ID 00> EI", "1 0 0 1 0 0 cm", "0 0 10 10 re f", "BT /F1 12 Tf 0 0 Td (x) Tj ET", "[1 2] 0 d", "1 2 (s) \""]).prop_map(|s| s.as_bytes().to_vec()),
        2 => prop::collection::vec(any::<u8>(), 1..6),
    ]
    .boxed()
}

fn soup() -> BoxedStrategy<Vec<u8>> {
    prop::collection::vec((soup_token(), prop::sample::select(vec![" ", " ", " ", "\n", "", "\r\n", "\t", "\0"])), 0..40)
        .prop_map(|v| {
            let mut out = Vec::new();
            for (t, sep) in v {
                out.extend(t);
                out.extend(sep.as_bytes());
            }
            out
        })
        .boxed()
}

/// a valid stream written by the harness (not by the library), to be mutated
fn valid_stream() -> BoxedStrategy<Vec<u8>> {
    let item = prop_oneof![
        (-500i32..500, -500i32..500, 0u32..300, 0u32..300).prop_map(|(x, y, w, h)| format!("{x} {y} {w} {h} re f\n")),
        (0u32..100, 0u32..100, 0u32..100).prop_map(|(r, g, b)| format!("{:.2} {:.2} {:.2} rg\n", r as f64 / 100.0, g as f64 / 100.0, b as f64 / 100.0)),
        (-500i32..500, -500i32..500, "[ -'*-\\[\\]-~]{0,12}").prop_map(|(x, y, s)| format!("BT /F1 12 Tf {x} {y} Td ({s}) Tj ET\n")),
        (0u32..50, "[0-9A-F]{0,12}").prop_map(|(m, h)| format!("/Span <</MCID {m} /ActualText <FEFF{h}>>> BDC\n(a) Tj\nEMC\n")),
        (1u32..4, 1u32..4, prop::collection::vec(any::<u8>(), 0..12)).prop_map(|(w, h, d)| {
            let mut s = format!("BI /W {w} /H {h} /CS /G /BPC 8 ID ").into_bytes();
            s.extend(d);
            s.extend(b" EI\n");
            String::from_utf8_lossy(&s).to_string()
        }),
        Just("q 1 0 0 1 10 10 cm /Im1 Do Q\n".to_string()),
        (prop::collection::vec(0u32..20, 0..4), 0u32..5).prop_map(|(a, p)| format!("[{}] {p} d\n", a.iter().map(|x| x.to_string()).collect::<Vec<_>>().join(" "))),
        "\\[(\\([a-z]{0,4}\\) ?-?[0-9]{1,3} ?){0,4}\\] TJ\n",
    ];
    prop::collection::vec(item, 1..8).prop_map(|v| v.concat().into_bytes()).boxed()
}

fn mutate(mut b: Vec<u8>, muts: &[(u8, u16, u8)]) -> Vec<u8> {
    for (kind, pos, val) in muts {
        if b.is_empty() {
            b.push(*val);
            continue;
        }
        let p = engine::pick_idx(*pos, b.len());
        match kind % 7 {
            0 => b[p] = *val,
            1 => {
                b.remove(p);
            }
            2 => b.insert(p, *val),
            3 => b.truncate(p),
            4 => {
                let q = (p + (*val as usize % 16) + 1).min(b.len());
                b.drain(p..q);
            }
            5 => {
                let q = (p + (*val as usize % 16) + 1).min(b.len());
                let dup: Vec<u8> = b[p..q].to_vec();
                for (i, x) in dup.into_iter().enumerate() {
                    b.insert(q + i, x);
                }
            }
            _ => b.insert(p, b"()<>[]{}/%\\ \n#;"[(*val as usize) % 15]),
        }
    }
    b
}

fn strategy_bytes() -> BoxedStrategy<BytesCase> {
    prop_oneof![
        3 => prop::collection::vec(any::<u8>(), 0..256).prop_map(|bytes| BytesCase { class: "arbitrary".into(), bytes }),
        1 => prop::collection::vec(prop::sample::select(b"()<>[]{}/%\\ \n#;.-+0179abBDCIEfqQ".to_vec()), 0..200).prop_map(|bytes| BytesCase { class: "delimiter-soup".into(), bytes }),
        6 => soup().prop_map(|bytes| BytesCase { class: "token-soup".into(), bytes }),
        2 => valid_stream().prop_map(|bytes| BytesCase { class: "valid".into(), bytes }),
        6 => (valid_stream(), prop::collection::vec((any::<u8>(), any::<u16>(), any::<u8>()), 1..5)).prop_map(|(b, m)| BytesCase { class: "mutated-valid".into(), bytes: mutate(b, &m) }),
    ]
    .boxed()
}

/// seed corpus of the coverage-guided campaign (tools/fuzz.sh c21_content): generated content streams
pub fn dump_corpus(dir: &std::path::Path, n: u32, seed: u64) -> std::io::Result<usize> {
    crate::engine::dump_strategy(dir, n, seed, "C21", strategy_bytes(), |c: &BytesCase| Some(c.bytes.clone()))
}

// ───────────────────────── termination: deep inputs in an isolated worker ─────────────────────────

#[derive(Clone, Debug, Serialize, Deserialize)]
pub struct DeepCase {
    pub pattern: u8,
    pub n: u32,
}

const DEEP_PATTERNS: [&str; 16] = [
    "run-of-)", "run-of-;", "run-of-{", "run-of-}", "BDC-props-nested-arrays", "BDC-props-nested-dicts", "run-of-(", "run-of-[-then-TJ", "run-of-<<-then-BDC", "run-of-q", "run-of-BI", "long-comment", "string-of-backslashes",
    "BDC-props-run-of-]", "run-of-ID", "BDC-props-run-of->>",
];

fn deep_input(c: &DeepCase) -> Vec<u8> {
    let n = c.n as usize;
    let rep = |s: &str, n: usize| s.repeat(n).into_bytes();
    match c.pattern % 16 {
        0 => rep(")", n),
        1 => rep(";", n),
        2 => rep("{", n),
        3 => rep("}", n),
        4 => [b"/T <</K ".to_vec(), rep("[", n), rep("]", n), b">> BDC".to_vec()].concat(),
        5 => [b"/T <</K ".to_vec(), rep("<</A ", n), b"1".to_vec(), rep(">>", n), b">> BDC".to_vec()].concat(),
        6 => rep("(", n),
        7 => [rep("[", n), b" TJ".to_vec()].concat(),
        8 => [rep("<<", n), b" BDC".to_vec()].concat(),
        9 => rep("q ", n),
        10 => rep("BI ", n),
        11 => [b"%".to_vec(), rep("a", n), b"\nq".to_vec()].concat(),
        12 => [b"(".to_vec(), rep("\\", n), b") Tj".to_vec()].concat(),
        13 => [b"/T <</K ".to_vec(), rep("]", n), b">> BDC".to_vec()].concat(),
        14 => rep("ID ", n),
        _ => [b"/T <</K ".to_vec(), rep(">>", n), b" BDC".to_vec()].concat(),
    }
}

/// entry point of `vp worker c21 <file>`: parse the file's bytes on an 8 MiB stack
pub fn worker_main(args: &[String]) {
    let Some(path) = args.first() else {
        eprintln!("usage: vp worker c21 <file>");
        std::process::exit(2);
    };
    let Ok(bytes) = std::fs::read(path) else {
        eprintln!("cannot read {path}");
        std::process::exit(2);
    };
    let h = std::thread::Builder::new()
        .stack_size(8 << 20)
        .spawn(move || {
            let a = ContentParser::parse(&bytes);
            let b = ContentParser::parse_strict(&bytes);
            (a.map(|v| v.len()).map_err(|e| e.to_string()), b.map(|v| v.len()).map_err(|e| e.to_string()))
        })
        .expect("spawn");
    match h.join() {
        Ok((a, b)) => {
            println!("parse={a:?} strict={b:?}");
            std::process::exit(0);
        }
        Err(_) => {
            println!("panic");
            std::process::exit(3);
        }
    }
}

pub fn check_deep(c: &DeepCase) -> Outcome {
    let mut o = Outcome::new();
    let pat = DEEP_PATTERNS[(c.pattern % 16) as usize];
    o.label(format!("pattern:{pat}"));
    o.label(match c.n {
        0..=999 => "n<1e3",
        1000..=99_999 => "n<1e5",
        _ => "n>=1e5",
    });
    o.nontrivial(c.n >= 100);
    let bytes = deep_input(c);
    let Ok(mut f) = tempfile::NamedTempFile::new() else {
        o.excluded("C21/parse-terminates");
        return o;
    };
    use std::io::Write as _;
    if f.write_all(&bytes).is_err() || f.flush().is_err() {
        o.excluded("C21/parse-terminates");
        return o;
    }
    let Ok(exe) = std::env::current_exe() else {
        o.excluded("C21/parse-terminates");
        return o;
    };
    let child = std::process::Command::new(exe).arg("worker").arg("c21").arg(f.path()).stdout(std::process::Stdio::piped()).stderr(std::process::Stdio::piped()).spawn();
    let Ok(mut child) = child else {
        o.excluded("C21/parse-terminates");
        return o;
    };
    // slowness is not a violation: wait generously, give up undecided
    let t0 = std::time::Instant::now();
    let status = loop {
        match child.try_wait() {
            Ok(Some(s)) => break Some(s),
            Ok(None) => {
                if t0.elapsed().as_secs() > 600 {
                    let _ = child.kill();
                    let _ = child.wait();
                    break None;
                }
                PROGRESS.fetch_add(1, Ordering::Relaxed);
                std::thread::sleep(std::time::Duration::from_millis(5));
            }
            Err(_) => break None,
        }
    };
    let Some(status) = status else {
        o.label("worker:undecided");
        o.excluded("C21/parse-terminates");
        return o;
    };
    let mut err = String::new();
    if let Some(mut e) = child.stderr.take() {
        use std::io::Read as _;
        let _ = e.read_to_string(&mut err);
    }
    match status.code() {
        Some(0) => o.label("worker:returned"),
        Some(3) => o.fail("C21/parse-terminates", format!("panic,pattern={pat}"), format!("panic in the parser on {} bytes ({pat}, n={}): {}", bytes.len(), c.n, engine::trunc(&err, 300))),
        Some(2) => {
            o.label("worker:could-not-run");
            o.excluded("C21/parse-terminates");
        }
        other => {
            use std::os::unix::process::ExitStatusExt;
            let overflow = err.contains("overflowed its stack");
            let class = if overflow { "stack-overflow" } else { "abort" };
            let pat = match c.pattern % 16 {
                0..=3 => "skipped-delimiter-run",
                4 | 5 | 13 | 15 => "BDC-props-nesting",
                _ => pat,
            };
            o.fail(
                "C21/parse-terminates",
                format!("{class},pattern={pat}"),
                format!("the worker parsing {} bytes ({pat}, n={}) on an 8 MiB stack ended with code {other:?} signal {:?}: {}", bytes.len(), c.n, status.signal(), engine::trunc(err.trim(), 300)),
            );
        }
    }
    o
}

fn strategy_deep() -> BoxedStrategy<DeepCase> {
    (0u8..16, prop_oneof![3 => prop::sample::select(vec![1_000u32, 10_000, 100_000, 250_000]), 1 => 1u32..150_000]).prop_map(|(pattern, n)| DeepCase { pattern, n }).boxed()
}

// ───────────────────────── run / replay ─────────────────────────

fn run(ctx: &Ctx) {
    start_watchdog(ctx.verif_dir.clone());
    // behind known findings: keep roughly a tenth of the cases inside each affected region
    let steer = Steer { hostile: 10, icc: 3, icc_pct: 9, interleave: 2 };
    ctx.run_sub("gfx", ctx.tier.pick(13_500, 180_000), || strategy_gfx(steer), check);
    ctx.run_sub("text", ctx.tier.pick(9_000, 120_000), || strategy_text(steer), check);
    ctx.run_sub("page", ctx.tier.pick(7_500, 100_000), || strategy_page(steer), check);
    ctx.run_sub("bytes", ctx.tier.pick(20_000, 400_000), strategy_bytes, check_bytes);
    ctx.run_sub("deep", ctx.tier.pick(64, 640), strategy_deep, check_deep);
    stop_watchdog();
}

fn replay(ctx: &Ctx, sub: &str, case: &Value) -> Result<Outcome, String> {
    match sub.trim_start_matches("replay:") {
        "gfx" | "text" | "page" => ctx.replay_case::<Case, _>(case, check),
        "bytes" => ctx.replay_case::<BytesCase, _>(case, check_bytes),
        "deep" => ctx.replay_case::<DeepCase, _>(case, check_deep),
        s => Err(format!("unknown sub-check {s}")),
    }
}
