//! C03 — written files are structurally valid PDF.
use crate::engine::{Ctx, Outcome, PropertyDef};
use crate::props::progdoc::{self, Cfg, Prog};
use crate::refpdf;
use oxidize_pdf::encryption::Permissions;
use oxidize_pdf::parser::{ParseOptions, PdfReader};
use proptest::prelude::*;
use serde::{Deserialize, Serialize};
use serde_json::Value;

pub fn def() -> PropertyDef {
    PropertyDef {
        id: "C03",
        level: "exploration",
        rule: "authoring programs (1–4 pages; text in the standard fonts, paths, colours, state, images gray/RGB/RGBA, opacity, document info; 25 % with hostile user strings — image names and info values over an alphabet with space / ( ) < > [ ] { } % # CR LF NUL-free non-ASCII and > 127-byte strings) × writer configuration {classic, xref stream, object streams} × compression × version × {no encryption, RC4-40, RC4-128, AES-128, AES-256 with generated passwords}. Oracle: (a) the harness's validator (qpdf --check stand-in) reports no problem; (b) the library's strict preset opens the file and reads catalog, page count, every page and every object; (c) xref offsets are checked byte-exactly by the validator. Non-trivial: ≥ 8 indirect objects and (≥ 1 stream or a hostile string); distinct by hash of the case.",
        assumptions: &[
            "validator = refpdf::validate: strict parse of every section and object, xref entry ↔ 'N G obj' byte offsets, /Size = highest object number + 1, exact stream /Length, every reference resolves, object-stream and xref-stream consistency, /Encrypt + /ID for encrypted files (ISO 32000-1 §7.5, §7.6)",
            "encrypted files are validated after authenticating the user password with the reference security handler",
        ],
        trusted_base: &["refpdf strict reader + validator", "refcrypto standard security handler (calibrated on qpdf/pypdf fixtures by C06)"],
        run,
        replay,
    }
}

#[derive(Clone, Debug, Serialize, Deserialize)]
pub struct Enc {
    pub strength: u8, // 0 RC4-40, 1 RC4-128, 2 AES-128, 3 AES-256
    pub user: String,
    pub owner: String,
}

#[derive(Clone, Debug, Serialize, Deserialize)]
pub struct Case {
    pub prog: Prog,
    pub cfg: Cfg,
    pub enc: Option<Enc>,
}

pub fn strength_of(s: u8) -> oxidize_pdf::document::EncryptionStrength {
    use oxidize_pdf::document::EncryptionStrength as S;
    match s % 4 {
        0 => S::Rc4_40bit,
        1 => S::Rc4_128bit,
        2 => S::Aes128,
        _ => S::Aes256,
    }
}

pub fn strength_name(s: u8) -> &'static str {
    ["RC4-40", "RC4-128", "AES-128", "AES-256"][(s % 4) as usize]
}

pub fn write_case(prog: &Prog, cfg: Cfg, enc: Option<&Enc>, perms: Option<Permissions>) -> Result<Vec<u8>, String> {
    write_case_with_fields(prog, cfg, enc, perms, &[])
}

/// `fields`: (name, value, default value) of text fields added through Document::enable_forms — strings under the
/// keys /T, /V and /DV of field dictionaries, i.e. string-bearing dictionaries that are neither Info nor annotations
pub fn write_case_with_fields(prog: &Prog, cfg: Cfg, enc: Option<&Enc>, perms: Option<Permissions>, fields: &[(String, Option<String>, Option<String>)]) -> Result<Vec<u8>, String> {
    let mut doc = progdoc::build_document(prog)?;
    for (i, (name, value, dv)) in fields.iter().enumerate() {
        let mut f = oxidize_pdf::forms::TextField::new(name.clone());
        if let Some(v) = value {
            f = f.with_value(v.clone());
        }
        if let Some(d) = dv {
            f = f.with_default_value(d.clone());
        }
        let y = 700.0 - 30.0 * i as f64;
        let w = oxidize_pdf::forms::Widget::new(oxidize_pdf::Rectangle::new(oxidize_pdf::Point::new(50.0, y), oxidize_pdf::Point::new(250.0, y + 20.0)));
        doc.enable_forms().add_text_field(f, w, None).map_err(|e| format!("add_text_field: {e}"))?;
    }
    if let Some(e) = enc {
        doc.set_encryption(oxidize_pdf::document::DocumentEncryption::new(e.user.clone(), e.owner.clone(), perms.unwrap_or_else(Permissions::all), strength_of(e.strength)));
    }
    doc.to_bytes_with_config(cfg.to_lib()).map_err(|e| format!("to_bytes_with_config: {e}"))
}

fn hostile(p: &Prog) -> bool {
    let h = |s: &str| s.bytes().any(|c| refpdf::is_ws(c) || refpdf::is_delim(c) || c == b'#' || c >= 0x80) || s.len() > 127;
    p.pages.iter().any(|pg| pg.images.iter().any(|i| h(&i.name))) || [&p.info.title, &p.info.author, &p.info.subject, &p.info.keywords, &p.info.creator].iter().any(|x| x.as_deref().map(h).unwrap_or(false))
}

pub fn check(c: &Case) -> Outcome {
    let mut o = Outcome::new();
    let layout = c.cfg.name();
    let encname = c.enc.as_ref().map(|e| strength_name(e.strength)).unwrap_or("none");
    let class = |what: &str| format!("{what},layout={},enc={}", layout.split('+').next().unwrap(), if c.enc.is_some() { "yes" } else { "no" });
    o.label(format!("layout={layout}"));
    o.label(format!("enc={encname}"));
    let is_hostile = hostile(&c.prog);
    o.label_if(is_hostile, "hostile-strings");
    let tw = std::time::Instant::now();
    let written = write_case(&c.prog, c.cfg, c.enc.as_ref(), None);
    if std::env::var("VERIF_TIMING").is_ok() {
        eprintln!("write: {:?}", tw.elapsed());
    }
    let bytes = match written {
        Ok(b) => b,
        Err(e) => {
            // an explicit refusal of the program is value-or-error, not a structural defect
            o.label("authoring-refused");
            let _ = e;
            return o;
        }
    };
    crate::engine::isolate::dump("c03.pdf", &bytes);
    let pw = c.enc.as_ref().map(|e| e.user.as_bytes().to_vec());
    let t0 = std::time::Instant::now();
    let rep = refpdf::validate::validate(&bytes, pw.as_deref());
    if std::env::var("VERIF_TIMING").is_ok() {
        eprintln!("validate: {:?}", t0.elapsed());
    }
    o.nontrivial(rep.objects >= 8 && (rep.streams >= 1 || is_hostile));
    o.label_if(rep.objstm_members >= 2, "objstm>=2-members");
    let mut seen = std::collections::BTreeSet::new();
    for p in &rep.problems {
        if seen.insert(p.clause) {
            o.fail(&format!("C03/validator-{}", p.clause), class(if is_hostile { "hostile" } else { "plain" }), p.detail.clone());
        }
    }
    // library strict parse
    let t1 = std::time::Instant::now();
    let _timing = scopeguard(t1);
    match PdfReader::new_with_options(std::io::Cursor::new(bytes.clone()), ParseOptions::strict()) {
        Err(e) => o.fail("C03/library-strict-opens", class(if is_hostile { "hostile" } else { "plain" }), format!("{e}")),
        Ok(mut rd) => {
            if let Some(e) = &c.enc {
                match rd.unlock_with_password(&e.user) {
                    Ok(true) => {}
                    other => {
                        o.fail("C03/library-strict-unlocks", class("unlock"), format!("is_encrypted={} unlock={other:?}", rd.is_encrypted()));
                        return o;
                    }
                }
            }
            let cls = class(if is_hostile { "hostile" } else { "plain" });
            if let Err(e) = rd.catalog() {
                o.fail("C03/library-strict-reads", cls.clone(), format!("catalog: {e}"));
            }
            // every object the independent reader sees must load in the library too
            for (n, g) in &rep.object_ids {
                if let Err(e) = rd.get_object(*n, *g) {
                    o.fail("C03/library-strict-reads", cls.clone(), format!("get_object({n},{g}): {e}"));
                    break;
                }
            }
            let doc = rd.into_document();
            match doc.page_count() {
                Err(e) => o.fail("C03/library-strict-reads", cls.clone(), format!("page_count: {e}")),
                Ok(n) => {
                    if n as usize != c.prog.pages.len() {
                        o.fail("C03/library-strict-reads", cls.clone(), format!("page_count {n} ≠ authored {}", c.prog.pages.len()));
                    }
                    for i in 0..n {
                        if let Err(e) = doc.get_page(i) {
                            o.fail("C03/library-strict-reads", cls.clone(), format!("get_page({i}): {e}"));
                            break;
                        }
                    }
                }
            }
        }
    }
    o
}

fn hostile_string() -> impl Strategy<Value = String> {
    prop_oneof![
        3 => "[A-Za-z /()<>\\[\\]{}%#]{1,10}",
        1 => "[a-z\r\n\t ]{1,8}",
        1 => "[a-zé中ß\u{1F600}]{1,6}",
        1 => "[a-z ]{128,140}",
    ]
}

fn password() -> impl Strategy<Value = String> {
    prop_oneof![3 => "[A-Za-z0-9]{0,12}", 1 => "[ -~]{0,20}", 1 => "[a-zé中]{1,8}", 1 => "[a-z]{31,40}"]
}

pub fn hostile_prog() -> impl Strategy<Value = Prog> {
    (progdoc::prog(), prop::collection::vec(hostile_string(), 6)).prop_map(|(mut p, hs)| {
        let mut it = hs.into_iter();
        // hostile image names (kept unique per page) and info values
        for pg in p.pages.iter_mut() {
            let mut renames = Vec::new();
            if let Some(im) = pg.images.first_mut() {
                if let Some(h) = it.next() {
                    renames.push((im.name.clone(), h.clone()));
                    im.name = h;
                }
            }
            let _ = renames;
        }
        p.info.title = it.next();
        p.info.keywords = it.next();
        p
    })
}

fn strategy() -> impl Strategy<Value = Case> {
    let enc = prop::option::weighted(0.4, (0u8..4, password(), password()).prop_map(|(strength, user, owner)| Enc { strength, user, owner }));
    (prop_oneof![3 => progdoc::prog(), 1 => hostile_prog()], progdoc::cfg(), enc).prop_map(|(prog, cfg, enc)| Case { prog, cfg, enc })
}

fn run(ctx: &Ctx) {
    ctx.set_shrink_budget(250);
    ctx.run_sub("files", ctx.tier.pick(600, 10_000), strategy, check);
    // documents large enough for several object streams (the writer starts a new one every 100 members);
    // each evaluation costs seconds (10^6-entry xref stream), so minimisation gets a small budget
    ctx.set_shrink_budget(25);
    let enc = || prop::option::weighted(0.3, (0u8..4, password(), password()).prop_map(|(strength, user, owner)| Enc { strength, user, owner }));
    ctx.run_sub("many-objects", ctx.tier.pick(24, 400), || (progdoc::prog_many(), progdoc::cfg_objstm(), enc()).prop_map(|(prog, cfg, enc)| Case { prog, cfg, enc }), check);
}

fn replay(ctx: &Ctx, sub: &str, case: &Value) -> Result<Outcome, String> {
    match sub.trim_start_matches("replay:") {
        "files" | "many-objects" => ctx.replay_case::<Case, _>(case, check),
        s => Err(format!("unknown sub-check {s}")),
    }
}

struct Timing(std::time::Instant);
impl Drop for Timing {
    fn drop(&mut self) {
        if std::env::var("VERIF_TIMING").is_ok() {
            eprintln!("library part: {:?}", self.0.elapsed());
        }
    }
}
fn scopeguard(t: std::time::Instant) -> Timing {
    Timing(t)
}
