//! C08 — bounded decoding respects its limit and agrees with full decoding.
//!
//! (a) `limits`: C07's reference-encoded cases (filters with a bounded decoder) × limits around every
//!     stage length; (b) `arbitrary`: arbitrary data / filter dictionaries with boundary integers ×
//!     arbitrary limits (value-or-error, no panic, never more than `limit` bytes); (c) `bomb`:
//!     expansion bombs through unbounded `decode()` against the documented 256 MiB ceiling.
use super::c07;
use crate::engine::{self, Ctx, Outcome, PropertyDef};
use crate::refcodec as rc;
use oxidize_pdf::parser::objects::{PdfArray, PdfDictionary, PdfName, PdfObject, PdfStream, PdfString};
use oxidize_pdf::parser::ParseOptions;
use proptest::prelude::*;
use serde::{Deserialize, Serialize};
use serde_json::{json, Value};

/// `MAX_DECOMPRESSED_SIZE` of parser/filters.rs (private const; documented there as "256 MB").
pub const CEILING: usize = 256 * 1024 * 1024;

pub fn def() -> PropertyDef {
    PropertyDef {
        id: "C08",
        level: "exploration",
        rule: "sub `limits`: a C07 reference-encoded case (chains of 1–3 over Flate/LZW/AHx/A85/RL with predictors; no CCITT, which has no bounded decoder) × limit ∈ {0, 1, len−1, len, len+1, 2·len, usize::MAX, random, and s−1/s/s+1 for every intermediate stage length s incl. the pre-predictor length}; sub `arbitrary`: arbitrary bytes / filter-alphabet strings / mutated valid encodings × arbitrary /Filter and /DecodeParms objects with boundary integers × arbitrary limits; sub `bomb`: RL-in-Flate, LZW, nested-Flate streams expanding beyond 256 MiB through unbounded decode(). Non-trivial: (limits) limit within ±1 of a stage length or chain ≥ 2; (arbitrary) a recognised filter name and ≥ 2 data bytes; distinct by hash of the case.",
        assumptions: &[
            "agreement with decode() is demanded only when every stage output, intermediate and pre-predictor results included, fits the limit (the implementation bounds each stage; the property promises agreement only when the stream 'decodes fully within the limit')",
            "when the final decoded length exceeds the limit an Err is demanded (decode_stream_with_limit documents rejecting rather than truncating); between those two bounds either outcome is accepted",
            "cases on which unbounded decode() does not return the reference bytes (C07 findings) are excluded from the agreement clauses, not counted as C08 failures",
            "the ceiling constant (256 MiB) is read from the doc comment of parser/filters.rs; arbitrary cases run in-process under catch_unwind (the engine has no isolated worker yet)",
        ],
        trusted_base: &["refcodec encoders + refpdf gate (known stage lengths)", "catch_unwind panic capture"],
        run,
        replay,
    }
}

// ───────────────────────── (a) limits ─────────────────────────

#[derive(Clone, Debug, Serialize, Deserialize, PartialEq)]
pub enum LimitSel {
    Zero,
    One,
    FinalMinus1,
    Final,
    FinalPlus1,
    TwoFinal,
    Max,
    /// around the largest intermediate length
    MaxStage(i8),
    /// around the length selected by the index (scaled into the list of stage lengths)
    Stage(u8, i8),
    Abs(u32),
}

#[derive(Clone, Debug, Serialize, Deserialize, PartialEq)]
pub struct Case {
    pub base: c07::Case,
    pub limit: LimitSel,
}

pub type LibResult = Result<Result<Vec<u8>, String>, (String, String)>;

pub fn lib_decode_limit(dict: &PdfDictionary, data: &[u8], limit: usize) -> LibResult {
    let stream = PdfStream { dict: dict.clone(), data: data.to_vec() };
    let opts = ParseOptions::default();
    engine::catch(|| stream.decode_with_limit(&opts, limit).map_err(|e| format!("{e}")))
}

fn stage_lens(b: &c07::Built) -> Vec<usize> {
    let mut v = Vec::new();
    for s in &b.stages {
        if s.pre.len() != s.output.len() {
            v.push(s.pre.len());
        }
        v.push(s.output.len());
    }
    v
}

fn resolve(sel: &LimitSel, b: &c07::Built) -> usize {
    let fin = b.x.len();
    let lens = stage_lens(b);
    let add = |v: usize, d: i8| if d < 0 { v.saturating_sub((-(d as i32)) as usize) } else { v.saturating_add(d as usize) };
    match sel {
        LimitSel::Zero => 0,
        LimitSel::One => 1,
        LimitSel::FinalMinus1 => fin.saturating_sub(1),
        LimitSel::Final => fin,
        LimitSel::FinalPlus1 => fin + 1,
        LimitSel::TwoFinal => fin * 2,
        LimitSel::Max => usize::MAX,
        LimitSel::MaxStage(d) => add(lens.iter().copied().max().unwrap_or(0), (*d).clamp(-1, 1)),
        LimitSel::Stage(i, d) => add(lens[(*i as usize * lens.len()) >> 8], (*d).clamp(-1, 1)),
        LimitSel::Abs(v) => *v as usize,
    }
}

/// Walk the chain one stage at a time through the library's own single-stage bounded decoder and
/// name the stage that panics; `predictor-parms` when the same stage does not panic without its parameters.
fn attribute_panic(names: &[String], parms: &[Option<PdfDictionary>], data: &[u8], limit: usize, msg: &str, loc: &str) -> String {
    let kind = c07::panic_kind(msg, loc);
    let mut cur = data.to_vec();
    for (i, n) in names.iter().enumerate() {
        let mk = |with_parms: bool| {
            let mut d = PdfDictionary::new();
            d.insert("Filter".into(), PdfObject::Name(PdfName(n.clone())));
            if with_parms {
                if let Some(Some(p)) = parms.get(i) {
                    d.insert("DecodeParms".into(), PdfObject::Dictionary(p.clone()));
                }
            }
            d
        };
        match lib_decode_limit(&mk(true), &cur, limit) {
            Err(_) => {
                return if matches!(lib_decode_limit(&mk(false), &cur, limit), Err(_)) { format!("{kind},filter={n}") } else { format!("{kind},predictor-parms") };
            }
            Ok(Ok(v)) => cur = v,
            Ok(Err(_)) => break,
        }
    }
    format!("{kind},chain")
}

fn describe(r: &LibResult) -> String {
    match r {
        Ok(Ok(v)) => format!("Ok({} bytes)", v.len()),
        Ok(Err(e)) => format!("Err({e})"),
        Err((m, l)) => format!("panic: {m} at {l}"),
    }
}

pub fn check(c: &Case) -> Outcome {
    let mut o = Outcome::new();
    let b = match c07::build(&c.base) {
        Ok(b) => b,
        Err(why) => {
            o.label("gate-rejected");
            o.label(format!("gate-rejected:{why}"));
            return o;
        }
    };
    if c.base.stages.iter().any(|s| matches!(s, c07::Stage::Ccitt { .. })) {
        o.label("skipped:ccitt");
        return o;
    }
    o.label("evaluated");
    let limit = resolve(&c.limit, &b);
    let lens = stage_lens(&b);
    let fin = b.x.len();
    let max_len = lens.iter().copied().max().unwrap_or(0);
    let last = c.base.stages.last().map(|s| s.short()).unwrap_or("");
    let near = lens.iter().any(|&l| limit.abs_diff(l) <= 1);
    o.nontrivial(near || c.base.stages.len() >= 2);
    for s in &c.base.stages {
        o.label(format!("filter={}", s.short()));
    }
    o.label(format!("chain={}", c.base.stages.len()));
    if limit.checked_add(1) == Some(fin) {
        o.label(format!("final={last},limit=len-1"));
    } else if limit == fin {
        o.label(format!("final={last},limit=len"));
    } else if Some(limit) == fin.checked_add(1) {
        o.label(format!("final={last},limit=len+1"));
    }
    o.label(if limit == 0 {
        "limit=0"
    } else if limit == usize::MAX {
        "limit=usize::MAX"
    } else if limit >= max_len {
        "limit>=every-stage"
    } else if limit >= fin {
        "final<=limit<some-stage"
    } else {
        "limit<final"
    });
    if b.stages.iter().any(|s| s.pre.len() != s.output.len()) {
        o.label("has-pre-predictor-length");
        if lens.iter().any(|&l| l != fin && limit.abs_diff(l) <= 1) {
            o.label("limit-near-intermediate-length");
        }
    }

    let rb = lib_decode_limit(&b.dict, &b.encoded, limit);
    // clauses that hold for every input
    match &rb {
        Err((m, l)) => {
            let names: Vec<String> = c.base.stages.iter().map(|s| s.filter_name().to_string()).collect();
            let parms: Vec<Option<PdfDictionary>> = b.stages.iter().map(|s| s.parms.clone()).collect();
            o.fail("C08/no-panic", attribute_panic(&names, &parms, &b.encoded, limit, m, l), format!("decode_with_limit({limit}) panicked: {m} at {l}; case stages {:?}", c.base.stages));
            return o;
        }
        Ok(Ok(v)) => {
            o.label("bounded=ok");
            if v.len() > limit {
                o.fail("C08/limit-respected", format!("final={last}"), format!("decode_with_limit({limit}) returned {} bytes", v.len()));
            }
        }
        Ok(Err(_)) => o.label("bounded=err"),
    }
    // agreement with the unbounded path — only where unbounded decoding is itself sound (C07's
    // findings are not C08's): every stage must decode on its own to the reference bytes. One
    // charitable reading: Predictor 2 on the *final* stage is returned undecoded by both paths with
    // unchanged length (C07 finding), so the agreement clauses stay evaluable there.
    let n = c.base.stages.len();
    let mut region_ok = true;
    for (i, (st, sb)) in c.base.stages.iter().zip(&b.stages).enumerate() {
        let r = c07::lib_decode(&c07::single_dict(st, &sb.parms), &sb.input);
        let pass = matches!(&r, Ok(Ok(v)) if c07::eq_masked(v, &sb.output, sb.mask));
        if !pass {
            let charitable = i == n - 1 && sb.eff_pred.map(|e| e.predictor) == Some(2) && matches!(&r, Ok(Ok(v)) if v.len() == sb.output.len());
            if charitable {
                o.label("charitable:Predictor=2-on-final-stage");
            } else {
                region_ok = false;
            }
        }
    }
    let ru = c07::lib_decode(&b.dict, &b.encoded);
    if !region_ok || !matches!(&ru, Ok(Ok(u)) if u.len() == fin) {
        o.label("c07-defect-region");
        o.excluded("C08/agrees-with-unbounded");
        o.excluded("C08/over-limit-is-error");
        return o;
    }
    let Ok(Ok(u)) = &ru else { return o };
    if max_len <= limit {
        match &rb {
            Ok(Ok(v)) if v == u => {}
            Ok(Ok(v)) => o.fail("C08/agrees-with-unbounded", format!("different-value,final={last}"), format!("limit {limit} ≥ every stage length {lens:?}: bounded gave {} bytes, unbounded {} bytes", v.len(), u.len())),
            other => {
                // which stage refuses?
                let mut culprit = "chain".to_string();
                for (st, sb) in c.base.stages.iter().zip(&b.stages) {
                    let mut d = PdfDictionary::new();
                    d.insert("Filter".into(), PdfObject::Name(PdfName(st.filter_name().to_string())));
                    if let Some(p) = &sb.parms {
                        d.insert("DecodeParms".into(), PdfObject::Dictionary(p.clone()));
                    }
                    if !matches!(lib_decode_limit(&d, &sb.input, limit), Ok(Ok(_))) {
                        culprit = format!("filter={}", st.short());
                        break;
                    }
                }
                o.fail("C08/agrees-with-unbounded", format!("bounded-error,{culprit}"), format!("limit {limit} ≥ every stage length {lens:?}, unbounded decode gave {} bytes, bounded gave {}", u.len(), describe(other)));
            }
        }
    } else if fin > limit {
        if let Ok(Ok(v)) = &rb {
            if v.len() <= limit {
                o.fail("C08/over-limit-is-error", format!("final={last}"), format!("full decode is {fin} bytes > limit {limit}, bounded decode returned Ok({} bytes) instead of an error", v.len()));
            }
        }
    } else {
        o.label("either-outcome-accepted");
    }
    o
}

fn limit_strategy() -> impl Strategy<Value = LimitSel> {
    prop_oneof![
        1 => Just(LimitSel::Zero),
        1 => Just(LimitSel::One),
        3 => Just(LimitSel::FinalMinus1),
        3 => Just(LimitSel::Final),
        3 => Just(LimitSel::FinalPlus1),
        1 => Just(LimitSel::TwoFinal),
        1 => Just(LimitSel::Max),
        3 => (-1i8..=1).prop_map(LimitSel::MaxStage),
        4 => (any::<u8>(), -1i8..=1).prop_map(|(i, d)| LimitSel::Stage(i, d)),
        2 => prop_oneof![0u32..300, 0u32..70000, any::<u32>()].prop_map(LimitSel::Abs),
    ]
}

pub fn strategy() -> impl Strategy<Value = Case> {
    (c07::strategy_bounded(), limit_strategy()).prop_map(|(base, limit)| Case { base, limit }).boxed()
}

// ───────────────────────── (b) arbitrary ─────────────────────────

#[derive(Clone, Debug, Serialize, Deserialize, PartialEq)]
pub enum ArbObj {
    Null,
    Int(i64),
    Real(f32),
    Bool(bool),
    Name(String),
    Str(Vec<u8>),
    Arr(Vec<ArbObj>),
    Dict(Vec<(String, ArbObj)>),
}

impl ArbObj {
    fn to_pdf(&self) -> PdfObject {
        match self {
            ArbObj::Null => PdfObject::Null,
            ArbObj::Int(i) => PdfObject::Integer(*i),
            ArbObj::Real(r) => PdfObject::Real(*r as f64),
            ArbObj::Bool(b) => PdfObject::Boolean(*b),
            ArbObj::Name(n) => PdfObject::Name(PdfName(n.clone())),
            ArbObj::Str(s) => PdfObject::String(PdfString(s.clone())),
            ArbObj::Arr(a) => PdfObject::Array(PdfArray(a.iter().map(|x| x.to_pdf()).collect())),
            ArbObj::Dict(d) => {
                let mut pd = PdfDictionary::new();
                for (k, v) in d {
                    pd.insert(k.clone(), v.to_pdf());
                }
                PdfObject::Dictionary(pd)
            }
        }
    }
    fn has_extreme_int(&self) -> bool {
        match self {
            ArbObj::Int(i) => *i < 0 || *i > 65536,
            ArbObj::Arr(a) => a.iter().any(|x| x.has_extreme_int()),
            ArbObj::Dict(d) => d.iter().any(|(_, x)| x.has_extreme_int()),
            _ => false,
        }
    }
}

#[derive(Clone, Debug, Serialize, Deserialize, PartialEq)]
pub enum ArbData {
    Bytes(Vec<u8>),
    /// characters drawn from a filter's alphabet (0 = ASCII85-ish, 1 = hex-ish, 2 = run-length-ish)
    Alpha { which: u8, idx: Vec<u8> },
    /// a valid encoding (0 zlib, 1 LZW EarlyChange 1, 2 LZW EarlyChange 0, 3 RL, 4 A85, 5 AHx) of `payload`, then cut / byte-flipped
    Encoded { kind: u8, payload: Vec<u8>, cut: Option<u16>, flips: Vec<(u16, u8)> },
}

impl ArbData {
    pub fn expand(&self) -> Vec<u8> {
        match self {
            ArbData::Bytes(v) => v.clone(),
            ArbData::Alpha { which, idx } => {
                let alpha: &[u8] = match which {
                    0 => b"uuuuuussss!!zz~><~ \n5F\x00vw{",
                    1 => b"0123456789abcdefABCDEF>> \n\x00gG<",
                    _ => &[0, 1, 2, 127, 128, 129, 255, 254, 65, 66, 0x80, 0x81],
                };
                idx.iter().map(|i| alpha[*i as usize % alpha.len()]).collect()
            }
            ArbData::Encoded { kind, payload, cut, flips } => {
                let mut e = match kind {
                    0 => rc::zlib(payload, 6, 0),
                    1 => rc::lzw_weezl(payload, true).unwrap_or_default(),
                    2 => rc::lzw_weezl(payload, false).unwrap_or_default(),
                    3 => rc::run_length(payload, &rc::RlOpts { mode: 0, max_lit: 128, max_rep: 128, seed: 0, eod: true }),
                    4 => rc::ascii85(payload, &rc::A85Opts { use_z: true, prefix: false, eod: true, noise: rc::Noise { density: 0, nul: false, seed: 0 } }),
                    _ => rc::ascii_hex(payload, &rc::AhxOpts { case_mode: 0, noise: rc::Noise { density: 0, nul: false, seed: 0 }, eod: true, odd: false, trailer: false }),
                };
                for (pos, val) in flips {
                    if !e.is_empty() {
                        let i = (*pos as usize * e.len()) >> 16;
                        e[i] ^= *val;
                    }
                }
                if let Some(c) = cut {
                    let keep = (*c as usize * (e.len() + 1)) >> 16;
                    e.truncate(keep);
                }
                e
            }
        }
    }
}

#[derive(Clone, Debug, Serialize, Deserialize, PartialEq)]
pub struct ArbCase {
    pub data: ArbData,
    pub filter: Option<ArbObj>,
    pub parms: Option<ArbObj>,
    pub limit: u64,
}

const FILTER_NAMES: [&str; 12] = ["FlateDecode", "LZWDecode", "ASCIIHexDecode", "ASCII85Decode", "RunLengthDecode", "FlateDecode", "LZWDecode", "CCITTFaxDecode", "DCTDecode", "JBIG2Decode", "Crypt", "Foo"];

pub fn check_arbitrary(c: &ArbCase) -> Outcome {
    let mut o = Outcome::new();
    let data = c.data.expand();
    let mut dict = PdfDictionary::new();
    if let Some(f) = &c.filter {
        dict.insert("Filter".into(), f.to_pdf());
    }
    if let Some(p) = &c.parms {
        dict.insert("DecodeParms".into(), p.to_pdf());
    }
    let limit = usize::try_from(c.limit).unwrap_or(usize::MAX);
    let names: Vec<String> = match &c.filter {
        Some(ArbObj::Name(n)) => vec![n.clone()],
        Some(ArbObj::Arr(a)) => a.iter().filter_map(|x| if let ArbObj::Name(n) = x { Some(n.clone()) } else { None }).collect(),
        _ => vec![],
    };
    let recognised = names.iter().any(|n| FILTER_NAMES[..7].contains(&n.as_str()));
    o.nontrivial(recognised && data.len() >= 2);
    for n in &names {
        o.label(format!("filter={n}"));
    }
    o.label(match &c.data {
        ArbData::Bytes(_) => "data=bytes",
        ArbData::Alpha { .. } => "data=alphabet",
        ArbData::Encoded { cut: None, flips, .. } if flips.is_empty() => "data=valid-encoding",
        ArbData::Encoded { .. } => "data=mutated-encoding",
    });
    o.label_if(c.parms.as_ref().map(|p| p.has_extreme_int()).unwrap_or(false), "parms-extreme-int");
    let r0 = {
        let mut d0 = dict.clone();
        d0.0.remove(&PdfName("DecodeParms".to_string()));
        if c.parms.is_some() && recognised { lib_decode_limit(&d0, &data, limit) } else { Ok(Err(String::new())) }
    };
    o.label_if(matches!(&r0, Ok(Ok(v)) if !v.is_empty()), "stage-reaches-predictor(non-empty decode without parms)");
    o.label(match &c.parms {
        None => "parms=absent",
        Some(ArbObj::Dict(_)) => "parms=dict",
        Some(ArbObj::Arr(_)) => "parms=array",
        Some(_) => "parms=other",
    });
    let r = lib_decode_limit(&dict, &data, limit);
    match &r {
        Err((m, l)) => {
            let parms: Vec<Option<PdfDictionary>> = (0..names.len())
                .map(|i| match &c.parms {
                    Some(d @ ArbObj::Dict(_)) => d.to_pdf().as_dict().cloned(),
                    Some(ArbObj::Arr(a)) => a.get(i).and_then(|x| x.to_pdf().as_dict().cloned()),
                    _ => None,
                })
                .collect();
            o.fail("C08/no-panic", attribute_panic(&names, &parms, &data, limit, m, l), format!("decode_with_limit({limit}) panicked: {m} at {l}; dict {:?}; data {:?}", dict, String::from_utf8_lossy(&data[..data.len().min(80)])))
        }
        Ok(Ok(v)) => {
            o.label("bounded=ok");
            o.label_if(!v.is_empty(), "bounded=ok,non-empty");
            if v.len() > limit {
                o.fail("C08/limit-respected", "arbitrary", format!("decode_with_limit({limit}) returned {} bytes; dict {:?}", v.len(), dict));
            }
        }
        Ok(Err(_)) => o.label("bounded=err"),
    }
    o
}

/// seed corpus of the coverage-guided campaign (tools/fuzz.sh c08_filters): generated (mostly valid, cut or flipped)
/// encodings behind the eight header bytes the fuzz target decodes into a stream dictionary
pub fn dump_corpus(dir: &std::path::Path, n: u32, seed: u64) -> std::io::Result<usize> {
    const FILTERS: [&str; 6] = ["FlateDecode", "LZWDecode", "ASCIIHexDecode", "ASCII85Decode", "RunLengthDecode", "Crypt"];
    crate::engine::dump_strategy(dir, n, seed, "C08", arb_strategy(), |c: &ArbCase| {
        let ArbObj::Name(f) = c.filter.as_ref()? else { return None };
        let idx = FILTERS.iter().position(|x| x == f)?;
        // single filter, no /DecodeParms, limit 2^20
        let mut v = vec![idx as u8, 0, 0, 0, 0, 0, 9, 0];
        v.extend(c.data.expand());
        v.truncate(8 + 64 * 1024);
        Some(v)
    })
}

fn boundary_int() -> impl Strategy<Value = i64> {
    prop_oneof![
        6 => prop::sample::select(vec![-1i64, 0, 1, 2, 3, 4, 5, 7, 8, 9, 10, 11, 12, 15, 16, 17, 32, 64, 255, 256]),
        3 => prop::sample::select(vec![-2i64, 65535, 65536, i32::MAX as i64, i32::MAX as i64 + 1, u32::MAX as i64, u32::MAX as i64 + 1, 1 << 40, (1 << 60) - 1, 1 << 60, 1 << 61, (1 << 61) + 1, 1 << 62, i64::MAX, i64::MAX - 1, i64::MIN, i64::MIN + 1, -(1 << 32)]),
        1 => any::<i64>(),
        1 => -20i64..2000,
    ]
}

fn scalar_obj() -> impl Strategy<Value = ArbObj> {
    prop_oneof![
        8 => boundary_int().prop_map(ArbObj::Int),
        1 => Just(ArbObj::Null),
        1 => any::<bool>().prop_map(ArbObj::Bool),
        1 => (-1000i32..1000).prop_map(|v| ArbObj::Real(v as f32 / 4.0)),
        1 => prop::sample::select(FILTER_NAMES.to_vec()).prop_map(|s| ArbObj::Name(s.to_string())),
        1 => prop::collection::vec(any::<u8>(), 0..4).prop_map(ArbObj::Str),
    ]
}

fn parm_dict() -> impl Strategy<Value = ArbObj> {
    let key = prop::sample::select(vec!["Predictor", "Predictor", "Colors", "BitsPerComponent", "Columns", "EarlyChange", "K", "Rows", "BlackIs1", "Foo"]);
    let pred = prop_oneof![3 => prop::sample::select(vec![1i64, 2, 10, 11, 12, 13, 14, 15]).prop_map(ArbObj::Int), 1 => scalar_obj()];
    (prop::option::weighted(0.7, pred), prop::collection::vec((key, scalar_obj()), 0..5)).prop_map(|(p, kv)| {
        let mut d: Vec<(String, ArbObj)> = Vec::new();
        if let Some(p) = p {
            d.push(("Predictor".to_string(), p));
        }
        for (k, v) in kv {
            if !d.iter().any(|(kk, _)| kk == k) {
                d.push((k.to_string(), v));
            }
        }
        ArbObj::Dict(d)
    })
}

fn parms_strategy() -> impl Strategy<Value = Option<ArbObj>> {
    prop_oneof![
        2 => Just(None),
        6 => parm_dict().prop_map(Some),
        3 => prop::collection::vec(prop_oneof![3 => parm_dict(), 1 => Just(ArbObj::Null), 1 => scalar_obj()], 0..4).prop_map(|a| Some(ArbObj::Arr(a))),
        1 => scalar_obj().prop_map(Some),
    ]
}

fn filter_strategy() -> impl Strategy<Value = Option<ArbObj>> {
    let name = prop::sample::select(FILTER_NAMES.to_vec()).prop_map(|s| ArbObj::Name(s.to_string()));
    prop_oneof![
        1 => Just(None),
        8 => name.clone().prop_map(Some),
        5 => prop::collection::vec(name, 0..4).prop_map(|a| Some(ArbObj::Arr(a))),
        1 => prop::collection::vec(scalar_obj(), 0..3).prop_map(|a| Some(ArbObj::Arr(a))),
        1 => scalar_obj().prop_map(Some),
    ]
}

fn arb_data() -> impl Strategy<Value = ArbData> {
    prop_oneof![
        3 => prop::collection::vec(any::<u8>(), 0..200).prop_map(ArbData::Bytes),
        4 => (0u8..3, prop::collection::vec(any::<u8>(), 0..40)).prop_map(|(which, idx)| ArbData::Alpha { which, idx }),
        4 => (0u8..6, prop::collection::vec(any::<u8>(), 0..300)).prop_map(|(kind, payload)| ArbData::Encoded { kind, payload, cut: None, flips: vec![] }),
        4 => (0u8..6, prop::collection::vec(prop::sample::select(vec![0u8, 1, 2, 255]), 0..600), prop::option::of(any::<u16>()), prop::collection::vec((any::<u16>(), any::<u8>()), 0..3))
            .prop_map(|(kind, payload, cut, flips)| ArbData::Encoded { kind, payload, cut, flips }),
    ]
}

/// valid Flate/LZW data with a predictor dictionary whose integers are drawn from the boundary set
fn arb_predictor_focus() -> impl Strategy<Value = ArbCase> {
    let val = |valid: Vec<i64>| prop_oneof![3 => prop::sample::select(valid).prop_map(ArbObj::Int), 2 => boundary_int().prop_map(ArbObj::Int), 1 => scalar_obj()];
    (
        0u8..3,
        prop::collection::vec(any::<u8>(), 0..120),
        prop_oneof![4 => prop::sample::select(vec![2i64, 10, 11, 12, 13, 14, 15]).prop_map(ArbObj::Int), 1 => boundary_int().prop_map(ArbObj::Int)],
        prop::option::weighted(0.7, val(vec![1, 2, 3, 4])),
        prop::option::weighted(0.7, val(vec![1, 2, 4, 8, 16])),
        prop::option::weighted(0.8, val(vec![1, 2, 3, 4, 5, 8, 16, 64])),
        any::<bool>(),
        prop_oneof![3 => prop::sample::select(vec![0u64, 1, 64, 4096, 1 << 32, u64::MAX]), 2 => 0u64..300],
    )
        .prop_map(|(kind, payload, pred, colors, bpc, columns, as_array, limit)| {
            let mut d = vec![("Predictor".to_string(), pred)];
            for (k, v) in [("Colors", colors), ("BitsPerComponent", bpc), ("Columns", columns)] {
                if let Some(v) = v {
                    d.push((k.to_string(), v));
                }
            }
            if kind == 2 {
                d.push(("EarlyChange".to_string(), ArbObj::Int(0)));
            }
            let name = ArbObj::Name(if kind == 0 { "FlateDecode" } else { "LZWDecode" }.to_string());
            let (filter, parms) = if as_array { (ArbObj::Arr(vec![name]), ArbObj::Arr(vec![ArbObj::Dict(d)])) } else { (name, ArbObj::Dict(d)) };
            ArbCase { data: ArbData::Encoded { kind, payload, cut: None, flips: vec![] }, filter: Some(filter), parms: Some(parms), limit }
        })
}

pub fn arb_strategy() -> impl Strategy<Value = ArbCase> {
    let limit = prop_oneof![
        3 => prop::sample::select(vec![0u64, 1, 2, 3, 4, 5, 8, 16, 255, 256, 4096, 1 << 32, u64::MAX, u64::MAX - 1, i64::MAX as u64]),
        3 => 0u64..700,
        1 => any::<u64>(),
    ];
    let general = (arb_data(), filter_strategy(), parms_strategy(), limit).prop_map(|(data, filter, parms, limit)| ArbCase { data, filter, parms, limit });
    prop_oneof![65 => general, 35 => arb_predictor_focus()].boxed()
}

// ───────────────────────── (c) bombs ─────────────────────────

#[derive(Clone, Debug, Serialize, Deserialize, PartialEq)]
pub struct BombCase {
    /// 0 RunLength inside Flate, 1 LZW (EarlyChange 1) of zeros, 2 Flate inside Flate, 3 plain RunLength, 4 LZW inside Flate
    pub kind: u8,
    /// bytes the innermost stage would expand to
    pub out_len: u64,
}

fn rl_zeros(n: usize) -> Vec<u8> {
    let mut v = Vec::with_capacity(n / 64 + 4);
    let mut left = n;
    while left >= 128 {
        v.extend_from_slice(&[0x81, 0]);
        left -= 128;
    }
    if left >= 2 {
        v.extend_from_slice(&[(257 - left) as u8, 0]);
    } else if left == 1 {
        v.extend_from_slice(&[0, 0]);
    }
    v.push(128);
    v
}

fn lzw_zeros(n: usize) -> Vec<u8> {
    // Clear, 0, 258, 259, … 4095 (each code is the entry being defined: one byte longer than the last), Clear, …
    let mut codes: Vec<u16> = Vec::new();
    let mut total = 0usize;
    'outer: loop {
        codes.push(256);
        codes.push(0);
        total += 1;
        for j in 0..=(4095 - 258) {
            if total >= n {
                break 'outer;
            }
            codes.push(258 + j as u16);
            total += j + 2;
        }
        if total >= n {
            break;
        }
    }
    codes.push(257);
    rc::lzw_pack(codes.into_iter(), true)
}

fn bomb_stream(c: &BombCase) -> (PdfDictionary, Vec<u8>) {
    let n = c.out_len as usize;
    let name = |s: &str| PdfObject::Name(PdfName(s.to_string()));
    let mut d = PdfDictionary::new();
    let data = match c.kind {
        0 => {
            d.insert("Filter".into(), PdfObject::Array(PdfArray(vec![name("FlateDecode"), name("RunLengthDecode")])));
            rc::zlib(&rl_zeros(n), 6, 0)
        }
        1 => {
            d.insert("Filter".into(), name("LZWDecode"));
            lzw_zeros(n)
        }
        2 => {
            d.insert("Filter".into(), PdfObject::Array(PdfArray(vec![name("FlateDecode"), name("FlateDecode")])));
            let mut e = flate2::write::ZlibEncoder::new(Vec::new(), flate2::Compression::new(1));
            let block = vec![0u8; 1 << 20];
            let mut left = n;
            use std::io::Write;
            while left > 0 {
                let k = left.min(block.len());
                e.write_all(&block[..k]).expect("vec write");
                left -= k;
            }
            rc::zlib(&e.finish().expect("vec finish"), 6, 0)
        }
        3 => {
            d.insert("Filter".into(), name("RunLengthDecode"));
            rl_zeros(n)
        }
        _ => {
            d.insert("Filter".into(), PdfObject::Array(PdfArray(vec![name("FlateDecode"), name("LZWDecode")])));
            rc::zlib(&lzw_zeros(n), 6, 0)
        }
    };
    (d, data)
}

pub fn check_bomb(c: &BombCase) -> Outcome {
    let mut o = Outcome::new();
    o.nontrivial(c.out_len as usize > CEILING);
    o.label(format!("bomb-kind={}", c.kind));
    o.label(if c.out_len as usize > CEILING { "expands>ceiling" } else { "expands<=ceiling" });
    let (dict, data) = bomb_stream(c);
    o.label(format!("bomb-input<{}KiB", (data.len() / 1024 + 1).next_power_of_two()));
    let r = c07::lib_decode(&dict, &data);
    match r {
        Err((m, l)) => o.fail("C08/no-panic", engine::panic_class(&m, &l), format!("decode() of bomb {c:?} panicked: {m} at {l}")),
        Ok(Err(_)) => o.label("bomb=err"),
        Ok(Ok(v)) => {
            o.label("bomb=ok");
            if v.len() > CEILING {
                o.fail("C08/unbounded-ceiling", format!("bomb-kind={}", c.kind), format!("decode() returned {} bytes > {} for {c:?} ({} input bytes)", v.len(), CEILING, data.len()));
            } else if (c.out_len as usize) <= CEILING && v.len() != c.out_len as usize {
                // below the ceiling nothing is demanded by C08 beyond the bound; recorded for information
                o.label("bomb-below-ceiling-not-fully-decoded");
            }
        }
    }
    o
}

fn run_bombs(ctx: &Ctx) {
    let over = CEILING as u64 + 4096;
    let cases: Vec<BombCase> = match ctx.tier {
        engine::Tier::Quick => vec![BombCase { kind: 0, out_len: over }, BombCase { kind: 1, out_len: over }],
        engine::Tier::Thorough => {
            let mut v = Vec::new();
            for kind in 0..5u8 {
                for out_len in [CEILING as u64 - 1, CEILING as u64, CEILING as u64 + 1, over, CEILING as u64 + (CEILING as u64) / 2, 3 * CEILING as u64] {
                    // nested Flate goes through the library's slow fallback strategies: keep it to a few sizes
                    if kind == 2 && !(out_len == over || out_len == CEILING as u64) {
                        continue;
                    }
                    v.push(BombCase { kind, out_len });
                }
            }
            v
        }
    };
    // a few at a time: each holds up to ~0.5 GiB
    for group in cases.chunks(2) {
        std::thread::scope(|s| {
            for c in group {
                std::thread::Builder::new()
                    .stack_size(16 << 20)
                    .spawn_scoped(s, move || {
                        let out = ctx.eval(&check_bomb, c);
                        let js = serde_json::to_value(c).unwrap_or(Value::Null);
                        let unknown = ctx.record("bomb", engine::hash64(js.to_string().as_bytes()), &out, || js.clone());
                        if let Some(f) = unknown.first() {
                            ctx.violation("bomb", f, js.clone(), &out.fails);
                        }
                    })
                    .expect("spawn bomb thread");
            }
        });
    }
}

fn run(ctx: &Ctx) {
    c07::calibrate_or_exit(ctx);
    ctx.run_sub("limits", ctx.tier.pick(11_000, 220_000), strategy, check);
    ctx.run_sub("arbitrary", ctx.tier.pick(4_000, 80_000), arb_strategy, check_arbitrary);
    run_bombs(ctx);
    let rejected = ctx.label_count("gate-rejected");
    let evaluated = ctx.label_count("evaluated");
    ctx.extra("gate", json!({"evaluated": evaluated, "gate_rejected": rejected}));
    ctx.extra("ceiling_bytes", json!(CEILING));
}

fn replay(ctx: &Ctx, sub: &str, case: &Value) -> Result<Outcome, String> {
    match sub.trim_start_matches("replay:") {
        "limits" => ctx.replay_case::<Case, _>(case, check),
        "arbitrary" => ctx.replay_case::<ArbCase, _>(case, check_arbitrary),
        "bomb" => ctx.replay_case::<BombCase, _>(case, check_bomb),
        s => Err(format!("unknown sub-check {s}")),
    }
}
