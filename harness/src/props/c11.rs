//! C11 — text extraction conserves every drawn character.
//!
//! Documents are assembled by the independent synthesizer (`refpdf::synth::Builder`) from an operator
//! IR; a reference text-showing interpreter (fonts → Unicode per ISO 32000-1 §9.10, geometry ignored)
//! gives the multiset of shown non-whitespace characters, which `TextExtractor::extract_from_page`
//! must reproduce for every `ExtractionOptions` combination.
use crate::engine::{pick_idx, Ctx, Outcome, PropertyDef};
use crate::refpdf::synth::{self, Builder};
use crate::refpdf::{self, Dict, Obj};
use oxidize_pdf::parser::{PdfDocument, PdfReader};
use oxidize_pdf::text::extraction::{CarriageReturnHandling, ExtractionOptions, TextExtractor};
use proptest::prelude::*;
use serde::{Deserialize, Serialize};
use serde_json::Value;
use std::collections::{BTreeMap, BTreeSet};
use std::io::{Cursor, Write};

pub fn def() -> PropertyDef {
    PropertyDef {
        id: "C11",
        level: "exploration",
        rule: "case = one synthesized document (1–2 pages, ≤ 4 fonts, ≤ 4 form XObjects nested ≤ 3, resources direct/indirect/inherited from /Pages) whose content streams are rendered from an operator IR over BT/ET, Tf, Tj, TJ (kerning of any magnitude), ', \", Td, TD, Tm, T*, Tc, Tw, Tz (incl. 0 and negative), TL, Ts, Tr 0–7, cm (translate/scale/negative/rotation/general), q/Q (depth ≤ 12), Do (forms with own /Resources and /Matrix; a form sets its own font or inherits the caller's), BMC/BDC/EMC (/Span, /P + MCID, /Artifact, /ActualText inline or through /Properties, direct or indirect); syntax variants: literal/hex strings, optional white space omitted, EOL = LF/CRLF/CR/space, comments, backslash-EOL string continuation, Flate or plain streams, /Contents split into 1–3 streams at an operator or (class split-inside-operator) any token boundary; fonts: standard-14 Type1 with WinAnsi/MacRoman/Standard/built-in encoding, /Differences (AGL names, uniXXXX), encoding dictionary direct or indirect, optional 1-byte ToUnicode; Type0 Identity-H + CIDFontType2 with generated ToUnicode (bfchar, bfrange, array form, 1:n, astral); typically 10–150 operators per page; × 6 option sets (default flat, flat+reading-order, preserve_layout, reorder_columns, 2 random over all booleans, 3 values per threshold, max_extracted_bytes None/16 MiB, CR policies). Each case draws from at most one region with a recorded defect (≈ 5 % of the cases per region, ≈ half outside all). Non-trivial: a page executes ≥ 2 different show operators with ≥ 1 state-changing operator between two shows; distinct by hash of the case. Clauses: conservation (multiset of non-whitespace characters of .text = reference, per option set; artifacts iff include_artifacts; ActualText replaces its scope), fragments-conserve (same for the concatenated fragments under preserve_layout), deterministic (fresh extractor, same extractor again, freshly opened document), document-equals-pages (extract_from_document), not-truncated, extracts (no error).",
        assumptions: &[
            "whitespace = char::is_whitespace on both sides; spaces/newlines inserted or dropped by layout heuristics are not asserted",
            "alphabet excludes controls, combining marks, spacing accents, ligature code points, soft hyphen, NBSP; '-' is generated in a quarter of the cases; in 60 % of them every option set has merge_hyphenated = false, in the rest merge_hyphenated stays as configured and conservation is judged modulo '-' (documented de-hyphenation drops a line-final '-' and nothing else: all other characters exactly once, and no more '-' than drawn)",
            "text render mode (Tr 0–7) does not remove text: the documentation names no mode that is dropped",
            "/ActualText (documented: collapse-on-EMC) replaces the text shown inside its scope when ≥ 1 glyph is shown there; nested ActualText, Artifact-inside-ActualText and Do-inside-ActualText are not generated (specification silent / library documents innermost-wins)",
            "/Artifact content is expected iff include_artifacts",
            "a form either sets its own font before showing text or shows with the font OBJECT its caller selected (ISO 32000-1 8.10.1, 9.3); only codes the font maps are shown (a ToUnicode CMap, when present, covers every shown code); matrices are non-singular; kerning integers stay within Annex C (larger values are written as reals)",
            "max_extracted_bytes is either None or 16 MiB (never reached), so truncation (documented) is out of scope",
        ],
        trusted_base: &[
            "refpdf synthesizer + strict reader/validator (every generated document must validate and its page content must read back byte-identical)",
            "harness encoding tables transcribed from ISO 32000-1 Annex D (WinAnsi, MacRoman, Standard) and an AGL subset",
        ],
        run,
        replay,
    }
}

// ───────────────────────────── case model ─────────────────────────────

/// fixed-point number in thousandths (shrinks towards 0, prints exactly)
#[derive(Clone, Copy, Debug, Serialize, Deserialize, PartialEq)]
pub struct Num(pub i64);
const N0: Num = Num(0);
const N1: Num = Num(1000);

#[derive(Clone, Copy, Debug, Serialize, Deserialize, PartialEq)]
pub enum Enc {
    WinAnsi,
    MacRoman,
    Standard,
    Builtin,
}

#[derive(Clone, Debug, Serialize, Deserialize)]
pub enum Seg {
    Ch { gap: u8, dst: String },
    Rg { gap: u8, run: u8, off: u8, n: u8, prefix: String, arr: bool },
}

pub const RISK_DIFF: u8 = 1;
pub const RISK_MAC: u8 = 2;
pub const RISK_STD: u8 = 4;
pub const RISK_WIN: u8 = 8;

#[derive(Clone, Debug, Serialize, Deserialize)]
pub enum FontSpec {
    Simple {
        base: u8,
        enc: Enc,
        /// (code, glyph-name pick)
        diffs: Vec<(u8, u16)>,
        enc_dict: bool,
        enc_indirect: bool,
        /// which regions with a recorded library defect this font may draw from (RISK_*)
        risk: u8,
        /// non-empty → a 1-byte /ToUnicode CMap; only mapped codes are shown
        tounicode: Vec<Seg>,
        inline: bool,
    },
    Type0 {
        segs: Vec<Seg>,
        desc_indirect: bool,
        flate: bool,
        inline: bool,
    },
}

#[derive(Clone, Debug, Serialize, Deserialize)]
pub enum Mc {
    Span,
    SpanMcid(u8),
    P(u8),
    Artifact,
    ArtifactProps,
    /// replacement text, with MCID?, through /Properties?
    Actual(String, bool, bool),
    /// BDC /Span /MCn with /Properties << /MCn << /MCID k >> >>
    PropMcid(u8),
}

#[derive(Clone, Debug, Serialize, Deserialize)]
pub enum TjItem {
    S(Vec<u16>),
    K(Num),
}

#[derive(Clone, Debug, Serialize, Deserialize)]
pub enum TOp {
    Tf(u16, Num),
    Tj(Vec<u16>),
    TJ(Vec<TjItem>),
    Quote(Vec<u16>),
    DQuote(Num, Num, Vec<u16>),
    Td(Num, Num),
    TD(Num, Num),
    Tm([Num; 6]),
    TStar,
    Tc(Num),
    Tw(Num),
    Tz(Num),
    TL(Num),
    Ts(Num),
    Tr(u8),
    Mc(Mc, Vec<TOp>),
}

#[derive(Clone, Debug, Serialize, Deserialize)]
pub enum Node {
    Text(Vec<TOp>),
    Save(u8, Vec<Node>),
    Cm([Num; 6]),
    Do(u16),
    Mc(Mc, Vec<Node>),
    /// a text-state operator outside a text object
    St(TOp),
}

#[derive(Clone, Debug, Serialize, Deserialize)]
pub struct Res {
    /// picks into Case::fonts; resource names are /F0 … in this order
    pub fonts: Vec<u16>,
    pub indirect: bool,
    pub font_dict_indirect: bool,
    pub xobj_dict_indirect: bool,
    /// /Properties: 0 direct dictionaries, 1 each property list an indirect object, 2 the /Properties dictionary itself indirect
    #[serde(default)]
    pub props_indirect: u8,
}

#[derive(Clone, Debug, Serialize, Deserialize)]
pub struct PageSpec {
    pub res: Res,
    pub body: Vec<Node>,
    /// stream boundaries: value v cuts after line (v+1)·n/6 of the n operator lines
    pub split: Vec<u8>,
    pub flate: bool,
    /// /Resources on the /Pages node (inherited) instead of the page
    pub inherited: bool,
    /// a stream boundary may also fall between the operands and their operator (any token boundary is legal, §7.8.2)
    #[serde(default)]
    pub split_mid_op: bool,
}

#[derive(Clone, Debug, Serialize, Deserialize)]
pub struct FormSpec {
    pub level: u8,
    pub res: Res,
    pub body: Vec<Node>,
    pub matrix: Option<[Num; 6]>,
    pub flate: bool,
    /// the form shows text with the font the caller had selected (no Tf of its own before the first show)
    #[serde(default)]
    pub inherit_font: bool,
}

#[derive(Clone, Debug, Serialize, Deserialize)]
pub struct OptSet {
    pub preserve_layout: bool,
    pub sort_by_position: bool,
    pub detect_columns: bool,
    pub merge_hyphenated: bool,
    pub track_space_decisions: bool,
    pub reconstruct_paragraphs: bool,
    pub include_artifacts: bool,
    pub reorder_columns: bool,
    pub space_threshold: u8,
    pub tj_space_threshold: u8,
    pub newline_threshold: u8,
    pub column_threshold: u8,
    pub max_bytes: bool,
    pub reading_order: bool,
    pub cr: u8,
}

#[derive(Clone, Debug, Serialize, Deserialize)]
pub struct Case {
    pub fonts: Vec<FontSpec>,
    pub pages: Vec<PageSpec>,
    pub forms: Vec<FormSpec>,
    pub opts: Vec<OptSet>,
    /// '-' may be drawn; merge_hyphenated is forced off in every option set
    pub hyphen_ok: bool,
    /// with hyphen_ok: merge_hyphenated stays as each option set says, and conservation is judged modulo '-' (the
    /// documented de-hyphenation drops a line-final '-' and nothing else): every other character exactly once,
    /// and no more '-' than were drawn
    #[serde(default)]
    pub hyphen_merge: bool,
    /// 0 literal strings, 1 hex strings, 2 alternating
    pub hex: u8,
    /// omit optional white space after strings/arrays ((a)Tj, [(a)-5(b)]TJ)
    #[serde(default)]
    pub compact: bool,
    /// end-of-line between operators: 0 LF, 1 CR LF, 2 a single space, 3 CR
    #[serde(default)]
    pub eol: u8,
    /// `%…` comment lines between operators
    #[serde(default)]
    pub comments: bool,
    /// literal strings wrapped with a backslash-EOL line continuation (§7.3.4.2)
    #[serde(default)]
    pub linecont: bool,
}

// ───────────────────────────── reference tables ─────────────────────────────

const BASE_FONTS: [&str; 6] = ["Helvetica", "Times-Roman", "Courier", "Helvetica-Bold", "Times-Italic", "Courier-Oblique"];

/// characters never generated: whitespace, controls, soft hyphen, spacing accents, ligatures
fn banned(c: char) -> bool {
    c.is_whitespace()
        || c.is_control()
        || matches!(c, '\u{AD}' | '´' | '¨' | '¯' | '¸' | 'ˆ' | '˜' | '˘' | '˙' | '˚' | '˝' | '˛' | 'ˇ')
        || ('\u{FB00}'..='\u{FB06}').contains(&c)
        || ('\u{300}'..='\u{36F}').contains(&c)
}

/// WinAnsiEncoding, ISO 32000-1 Annex D.2
fn winansi(code: u8) -> Option<char> {
    Some(match code {
        0x20..=0x7E => code as char,
        0x80 => '€',
        0x82 => '‚',
        0x83 => 'ƒ',
        0x84 => '„',
        0x85 => '…',
        0x86 => '†',
        0x87 => '‡',
        0x88 => 'ˆ',
        0x89 => '‰',
        0x8A => 'Š',
        0x8B => '‹',
        0x8C => 'Œ',
        0x8E => 'Ž',
        0x91 => '\u{2018}',
        0x92 => '\u{2019}',
        0x93 => '\u{201C}',
        0x94 => '\u{201D}',
        0x95 => '•',
        0x96 => '–',
        0x97 => '—',
        0x98 => '˜',
        0x99 => '™',
        0x9A => 'š',
        0x9B => '›',
        0x9C => 'œ',
        0x9E => 'ž',
        0x9F => 'Ÿ',
        0xA1..=0xFF => code as char, // Latin-1 (0xAD is filtered by `banned`)
        _ => return None,
    })
}

/// MacRomanEncoding, ISO 32000-1 Annex D.2 (only the codes of the Latin character set)
fn macroman(code: u8) -> Option<char> {
    const HI: &[(u8, char)] = &[
        (0x80, 'Ä'), (0x81, 'Å'), (0x82, 'Ç'), (0x83, 'É'), (0x84, 'Ñ'), (0x85, 'Ö'), (0x86, 'Ü'), (0x87, 'á'),
        (0x88, 'à'), (0x89, 'â'), (0x8A, 'ä'), (0x8B, 'ã'), (0x8C, 'å'), (0x8D, 'ç'), (0x8E, 'é'), (0x8F, 'è'),
        (0x90, 'ê'), (0x91, 'ë'), (0x92, 'í'), (0x93, 'ì'), (0x94, 'î'), (0x95, 'ï'), (0x96, 'ñ'), (0x97, 'ó'),
        (0x98, 'ò'), (0x99, 'ô'), (0x9A, 'ö'), (0x9B, 'õ'), (0x9C, 'ú'), (0x9D, 'ù'), (0x9E, 'û'), (0x9F, 'ü'),
        (0xA0, '†'), (0xA1, '°'), (0xA2, '¢'), (0xA3, '£'), (0xA4, '§'), (0xA5, '•'), (0xA6, '¶'), (0xA7, 'ß'),
        (0xA8, '®'), (0xA9, '©'), (0xAA, '™'), (0xAB, '´'), (0xAC, '¨'), (0xAE, 'Æ'), (0xAF, 'Ø'),
        (0xB1, '±'), (0xB4, '¥'), (0xB5, 'µ'), (0xBB, 'ª'), (0xBC, 'º'), (0xBE, 'æ'), (0xBF, 'ø'),
        (0xC0, '¿'), (0xC1, '¡'), (0xC2, '¬'), (0xC4, 'ƒ'), (0xC7, '«'), (0xC8, '»'), (0xC9, '…'),
        (0xCB, 'À'), (0xCC, 'Ã'), (0xCD, 'Õ'), (0xCE, 'Œ'), (0xCF, 'œ'),
        (0xD0, '–'), (0xD1, '—'), (0xD2, '\u{201C}'), (0xD3, '\u{201D}'), (0xD4, '\u{2018}'), (0xD5, '\u{2019}'), (0xD6, '÷'),
        (0xD8, 'ÿ'), (0xD9, 'Ÿ'), (0xDA, '\u{2044}'), (0xDB, '¤'), (0xDC, '‹'), (0xDD, '›'), (0xDE, '\u{FB01}'), (0xDF, '\u{FB02}'),
        (0xE0, '‡'), (0xE1, '·'), (0xE2, '‚'), (0xE3, '„'), (0xE4, '‰'), (0xE5, 'Â'), (0xE6, 'Ê'), (0xE7, 'Á'),
        (0xE8, 'Ë'), (0xE9, 'È'), (0xEA, 'Í'), (0xEB, 'Î'), (0xEC, 'Ï'), (0xED, 'Ì'), (0xEE, 'Ó'), (0xEF, 'Ô'),
        (0xF1, 'Ò'), (0xF2, 'Ú'), (0xF3, 'Û'), (0xF4, 'Ù'), (0xF5, 'ı'), (0xF6, 'ˆ'), (0xF7, '˜'), (0xF8, '¯'),
        (0xF9, '˘'), (0xFA, '˙'), (0xFB, '˚'), (0xFC, '¸'), (0xFD, '˝'), (0xFE, '˛'), (0xFF, 'ˇ'),
    ];
    match code {
        0x20..=0x7E => Some(code as char),
        _ => HI.iter().find(|(c, _)| *c == code).map(|(_, ch)| *ch),
    }
}

/// StandardEncoding, ISO 32000-1 Annex D.2
fn standard(code: u8) -> Option<char> {
    const HI: &[(u8, char)] = &[
        (0xA1, '¡'), (0xA2, '¢'), (0xA3, '£'), (0xA4, '\u{2044}'), (0xA5, '¥'), (0xA6, 'ƒ'), (0xA7, '§'), (0xA8, '¤'),
        (0xA9, '\''), (0xAA, '\u{201C}'), (0xAB, '«'), (0xAC, '‹'), (0xAD, '›'), (0xAE, '\u{FB01}'), (0xAF, '\u{FB02}'),
        (0xB1, '–'), (0xB2, '†'), (0xB3, '‡'), (0xB4, '·'), (0xB6, '¶'), (0xB7, '•'), (0xB8, '‚'), (0xB9, '„'),
        (0xBA, '\u{201D}'), (0xBB, '»'), (0xBC, '…'), (0xBD, '‰'), (0xBF, '¿'),
        (0xC1, '`'), (0xC2, '´'), (0xC3, 'ˆ'), (0xC4, '˜'), (0xC5, '¯'), (0xC6, '˘'), (0xC7, '˙'), (0xC8, '¨'),
        (0xCA, '˚'), (0xCB, '¸'), (0xCD, '˝'), (0xCE, '˛'), (0xCF, 'ˇ'), (0xD0, '—'),
        (0xE1, 'Æ'), (0xE3, 'ª'), (0xE8, 'Ł'), (0xE9, 'Ø'), (0xEA, 'Œ'), (0xEB, 'º'),
        (0xF1, 'æ'), (0xF5, 'ı'), (0xF8, 'ł'), (0xF9, 'ø'), (0xFA, 'œ'), (0xFB, 'ß'),
        (0x27, '\u{2019}'), (0x60, '\u{2018}'),
    ];
    match code {
        0x27 | 0x60 => HI.iter().find(|(c, _)| *c == code).map(|(_, ch)| *ch),
        0x20..=0x7E => Some(code as char),
        _ => HI.iter().find(|(c, _)| *c == code).map(|(_, ch)| *ch),
    }
}

/// (char, risk region) of a code in a base encoding; None → not generated
fn enc_decode(enc: Enc, code: u8) -> Option<(char, u8)> {
    let (ch, risk) = match enc {
        Enc::WinAnsi => (winansi(code)?, if code == 0x93 || code == 0x94 { RISK_WIN } else { 0 }),
        Enc::MacRoman => (macroman(code)?, if code >= 0xA0 { RISK_MAC } else { 0 }),
        Enc::Standard | Enc::Builtin => (standard(code)?, if code == 0x27 || code == 0x60 || code >= 0xA1 { RISK_STD } else { 0 }),
    };
    if ch != ' ' && banned(ch) {
        return None;
    }
    Some((ch, risk))
}

/// Adobe Glyph List subset (name, code point). The first `AGL_PLAIN` entries are the plain
/// ASCII-punctuation/digit names; everything is transcribed from glyphlist.txt.
const AGL: &[(&str, u32)] = &[
    ("exclam", 0x21), ("quotedbl", 0x22), ("numbersign", 0x23), ("dollar", 0x24), ("percent", 0x25), ("ampersand", 0x26),
    ("quotesingle", 0x27), ("parenleft", 0x28), ("parenright", 0x29), ("asterisk", 0x2A), ("plus", 0x2B), ("comma", 0x2C),
    ("hyphen", 0x2D), ("period", 0x2E), ("slash", 0x2F), ("zero", 0x30), ("one", 0x31), ("two", 0x32), ("three", 0x33),
    ("four", 0x34), ("five", 0x35), ("six", 0x36), ("seven", 0x37), ("eight", 0x38), ("nine", 0x39), ("colon", 0x3A),
    ("semicolon", 0x3B), ("less", 0x3C), ("equal", 0x3D), ("greater", 0x3E), ("question", 0x3F), ("at", 0x40),
    ("A", 0x41), ("B", 0x42), ("C", 0x43),
    // ── beyond here: names outside the plain subset
    ("D", 0x44), ("E", 0x45), ("K", 0x4B), ("Q", 0x51), ("Z", 0x5A), ("a", 0x61), ("b", 0x62), ("e", 0x65), ("g", 0x67),
    ("m", 0x6D), ("x", 0x78), ("z", 0x7A), ("bracketleft", 0x5B), ("backslash", 0x5C), ("bracketright", 0x5D),
    ("underscore", 0x5F), ("braceleft", 0x7B), ("bar", 0x7C), ("braceright", 0x7D),
    ("exclamdown", 0xA1), ("cent", 0xA2), ("sterling", 0xA3), ("currency", 0xA4), ("yen", 0xA5), ("brokenbar", 0xA6),
    ("section", 0xA7), ("copyright", 0xA9), ("ordfeminine", 0xAA), ("guillemotleft", 0xAB), ("logicalnot", 0xAC),
    ("registered", 0xAE), ("degree", 0xB0), ("plusminus", 0xB1), ("paragraph", 0xB6), ("periodcentered", 0xB7),
    ("ordmasculine", 0xBA), ("guillemotright", 0xBB), ("questiondown", 0xBF), ("Agrave", 0xC0), ("Aacute", 0xC1),
    ("Acircumflex", 0xC2), ("Atilde", 0xC3), ("Adieresis", 0xC4), ("Aring", 0xC5), ("AE", 0xC6), ("Ccedilla", 0xC7),
    ("Egrave", 0xC8), ("Eacute", 0xC9), ("Ntilde", 0xD1), ("Odieresis", 0xD6), ("multiply", 0xD7), ("Oslash", 0xD8),
    ("Udieresis", 0xDC), ("Thorn", 0xDE), ("germandbls", 0xDF), ("agrave", 0xE0), ("aacute", 0xE1), ("adieresis", 0xE4),
    ("aring", 0xE5), ("ae", 0xE6), ("ccedilla", 0xE7), ("egrave", 0xE8), ("eacute", 0xE9), ("ecircumflex", 0xEA),
    ("iacute", 0xED), ("eth", 0xF0), ("ntilde", 0xF1), ("oacute", 0xF3), ("odieresis", 0xF6), ("divide", 0xF7),
    ("oslash", 0xF8), ("udieresis", 0xFC), ("yacute", 0xFD), ("thorn", 0xFE), ("ydieresis", 0xFF),
    ("Euro", 0x20AC), ("bullet", 0x2022), ("endash", 0x2013), ("emdash", 0x2014), ("quoteleft", 0x2018),
    ("quoteright", 0x2019), ("quotedblleft", 0x201C), ("quotedblright", 0x201D), ("quotesinglbase", 0x201A),
    ("quotedblbase", 0x201E), ("dagger", 0x2020), ("daggerdbl", 0x2021), ("ellipsis", 0x2026), ("perthousand", 0x2030),
    ("guilsinglleft", 0x2039), ("guilsinglright", 0x203A), ("trademark", 0x2122), ("florin", 0x192), ("OE", 0x152),
    ("oe", 0x153), ("Scaron", 0x160), ("scaron", 0x161), ("Zcaron", 0x17D), ("zcaron", 0x17E), ("Ydieresis", 0x178),
    ("Lslash", 0x141), ("lslash", 0x142), ("dotlessi", 0x131), ("fraction", 0x2044), ("minus", 0x2212),
    ("uni0416", 0x416), ("uni4E2D", 0x4E2D), ("uni03A9", 0x3A9), ("uni00E9", 0xE9),
];
const AGL_PLAIN: usize = 35;

/// runs of consecutive, generated code points for bfrange destinations: (first, length)
const RUNS: [(u32, u32); 8] = [(0x41, 26), (0x61, 26), (0x30, 10), (0x3B1, 17), (0x410, 64), (0x4E00, 200), (0x3041, 80), (0xC0, 23)];

#[derive(Clone, Debug)]
pub struct Entry {
    pub code: Vec<u8>,
    pub text: String,
    pub risk: u8,
}

/// laid-out ToUnicode segment
#[derive(Clone, Debug)]
enum LSeg {
    Ch { code: u32, dst: String },
    Rg { lo: u32, dsts: Vec<String>, arr: bool },
}

fn layout_segs(segs: &[Seg], width: usize) -> Vec<LSeg> {
    let mut out = Vec::new();
    let mut cur: u32 = if width == 1 { 0x21 } else { 1 };
    let max: u32 = if width == 1 { 0xFF } else { 0xFFFF };
    for s in segs {
        match s {
            Seg::Ch { gap, dst } => {
                let gap = if width == 1 { (*gap % 4) as u32 } else { *gap as u32 };
                let code = cur + gap;
                if code > max {
                    break;
                }
                if dst.is_empty() || dst.chars().any(|c| c != ' ' && banned(c)) || dst.contains('-') {
                    continue;
                }
                out.push(LSeg::Ch { code, dst: dst.clone() });
                cur = code + 1;
            }
            Seg::Rg { gap, run, off, n, prefix, arr } => {
                let gap = if width == 1 { (*gap % 4) as u32 } else { *gap as u32 };
                let (base, len) = RUNS[*run as usize % RUNS.len()];
                let off = *off as u32 % len;
                let first = base + off;
                let mut n = (*n as u32).max(1).min(len - off).min(0x100 - (first & 0xFF));
                let mut code = cur + gap;
                if width == 2 && (code & 0xFF) + n - 1 > 0xFF {
                    code = (code | 0xFF) + 1;
                }
                if code > max {
                    break;
                }
                n = n.min(max - code + 1);
                if prefix.chars().any(|c| c != ' ' && banned(c)) || prefix.contains('-') {
                    continue;
                }
                let dsts: Vec<String> = (0..n)
                    .map(|i| {
                        let mut s = prefix.clone();
                        s.push(char::from_u32(first + i).unwrap_or('?'));
                        s
                    })
                    .collect();
                out.push(LSeg::Rg { lo: code, dsts, arr: *arr });
                cur = code + n;
            }
        }
    }
    out
}

fn lseg_entries(l: &[LSeg], width: usize) -> Vec<Entry> {
    let enc = |c: u32| if width == 1 { vec![c as u8] } else { vec![(c >> 8) as u8, c as u8] };
    let mut v = Vec::new();
    for s in l {
        match s {
            LSeg::Ch { code, dst } => v.push(Entry { code: enc(*code), text: dst.clone(), risk: 0 }),
            LSeg::Rg { lo, dsts, .. } => {
                for (i, d) in dsts.iter().enumerate() {
                    v.push(Entry { code: enc(lo + i as u32), text: d.clone(), risk: 0 });
                }
            }
        }
    }
    v
}

fn utf16_hex(s: &str) -> String {
    let mut h = String::from("<");
    for u in s.encode_utf16() {
        h.push_str(&format!("{u:04X}"));
    }
    h.push('>');
    h
}

/// ToUnicode CMap program text (Adobe TN 5411 / ISO 32000-1 §9.10.3)
fn cmap_text(l: &[LSeg], width: usize) -> Vec<u8> {
    let code = |c: u32| if width == 1 { format!("<{c:02X}>") } else { format!("<{c:04X}>") };
    let mut s = String::new();
    s.push_str("/CIDInit /ProcSet findresource begin\n12 dict begin\nbegincmap\n");
    s.push_str("/CIDSystemInfo << /Registry (Adobe) /Ordering (UCS) /Supplement 0 >> def\n");
    s.push_str("/CMapName /Adobe-Identity-UCS def\n/CMapType 2 def\n1 begincodespacerange\n");
    if width == 1 {
        s.push_str("<00> <FF>\n");
    } else {
        s.push_str("<0000> <FFFF>\n");
    }
    s.push_str("endcodespacerange\n");
    let chars: Vec<_> = l.iter().filter_map(|x| if let LSeg::Ch { code: c, dst } = x { Some((*c, dst)) } else { None }).collect();
    for chunk in chars.chunks(100) {
        s.push_str(&format!("{} beginbfchar\n", chunk.len()));
        for (c, d) in chunk {
            s.push_str(&format!("{} {}\n", code(*c), utf16_hex(d)));
        }
        s.push_str("endbfchar\n");
    }
    let rgs: Vec<_> = l.iter().filter_map(|x| if let LSeg::Rg { lo, dsts, arr } = x { Some((*lo, dsts, *arr)) } else { None }).collect();
    for chunk in rgs.chunks(100) {
        s.push_str(&format!("{} beginbfrange\n", chunk.len()));
        for (lo, dsts, arr) in chunk {
            let hi = lo + dsts.len() as u32 - 1;
            if *arr {
                let items: Vec<String> = dsts.iter().map(|d| utf16_hex(d)).collect();
                s.push_str(&format!("{} {} [{}]\n", code(*lo), code(hi), items.join(" ")));
            } else {
                s.push_str(&format!("{} {} {}\n", code(*lo), code(hi), utf16_hex(&dsts[0])));
            }
        }
        s.push_str("endbfrange\n");
    }
    s.push_str("endcmap\nCMapName currentdict /CMap defineresource pop\nend\nend\n");
    s.into_bytes()
}

/// glyph name chosen by a /Differences pick under the font's risk mask
fn diff_name(pick: u16, risk: u8) -> (&'static str, char, u8) {
    let pool = if risk & RISK_DIFF != 0 { AGL.len() } else { AGL_PLAIN };
    let i = pick_idx(pick, pool);
    let (n, cp) = AGL[i];
    (n, char::from_u32(cp).unwrap_or('?'), if i >= AGL_PLAIN { RISK_DIFF } else { 0 })
}

/// distinct codes, first definition wins, sorted
fn norm_diffs(diffs: &[(u8, u16)]) -> Vec<(u8, u16)> {
    let mut m: BTreeMap<u8, u16> = BTreeMap::new();
    for (c, p) in diffs {
        let c = (*c).max(0x21);
        m.entry(c).or_insert(*p);
    }
    m.into_iter().collect()
}

/// the codes of a font that may be shown, with the Unicode text §9.10.2 assigns to each
pub fn font_table(f: &FontSpec, hyphen_ok: bool) -> Vec<Entry> {
    match f {
        FontSpec::Type0 { segs, .. } => lseg_entries(&layout_segs(segs, 2), 2),
        FontSpec::Simple { tounicode, .. } if !tounicode.is_empty() => lseg_entries(&layout_segs(tounicode, 1), 1),
        FontSpec::Simple { enc, diffs, risk, .. } => {
            let d = norm_diffs(diffs);
            let mut v = Vec::new();
            for code in 0x20u8..=0xFF {
                let (ch, r) = if let Some((_, p)) = d.iter().find(|(c, _)| *c == code) {
                    let (_, ch, r) = diff_name(*p, *risk);
                    if banned(ch) {
                        continue;
                    }
                    (ch, r)
                } else {
                    match enc_decode(*enc, code) {
                        Some(x) => x,
                        None => continue,
                    }
                };
                if r & !*risk != 0 {
                    continue;
                }
                if ch == '-' && !hyphen_ok {
                    continue;
                }
                v.push(Entry { code: vec![code], text: ch.to_string(), risk: r });
            }
            v
        }
    }
}

// ───────────────────────────── rendering + reference interpreter ─────────────────────────────

fn wnum(n: Num, out: &mut Vec<u8>) {
    let a = n.0.unsigned_abs();
    let (ip, fp) = (a / 1000, a % 1000);
    if n.0 < 0 {
        out.push(b'-');
    }
    if fp == 0 {
        if ip <= i32::MAX as u64 {
            let _ = write!(out, "{ip}");
        } else {
            let _ = write!(out, "{ip}.0"); // outside the Annex C integer range: written as a real
        }
    } else {
        let s = format!("{ip}.{fp:03}");
        let _ = write!(out, "{}", s.trim_end_matches('0'));
    }
    out.push(b' ');
}

fn wmat(m: &[Num; 6], out: &mut Vec<u8>) {
    for x in m {
        wnum(*x, out);
    }
}

fn mat_class(m: &[Num; 6]) -> (bool, bool) {
    (m[1].0 != 0 || m[2].0 != 0, m[0].0 < 0 || m[3].0 < 0)
}

#[derive(Clone, Copy, Debug, PartialEq, Eq, PartialOrd, Ord)]
pub enum Sid {
    Page(usize),
    Form(usize),
}

struct Frame {
    /// 0 plain, 1 artifact, 2 actual text
    kind: u8,
    text: String,
    has_show: bool,
}

#[derive(Clone, Default)]
struct St {
    font: Option<usize>,
    /// resource-name index k of the /Fk that selected it, and whether that happened in a calling stream
    name: usize,
    inherited: bool,
    /// a stream entered since the Tf defines /Fk as a different font
    shadowed: bool,
}

#[derive(Default, Clone)]
pub struct Expect {
    pub all: Vec<char>,
    pub noart: Vec<char>,
}

pub struct Walk<'a> {
    c: &'a Case,
    tables: Vec<Vec<Entry>>,
    /// rendered content: page → chunks, form → one chunk
    pub content: BTreeMap<Sid, Vec<Vec<u8>>>,
    pub props: BTreeMap<Sid, Vec<Dict>>,
    pub used_forms: BTreeMap<Sid, BTreeSet<usize>>,
    pub expect: Vec<Expect>,
    cur_page: usize,
    mc: Vec<Frame>,
    pub invalid: Option<&'static str>,
    pub labels: BTreeSet<String>,
    pub risks: u8,
    pub indirect_enc_shown: bool,
    pub shadow_shown: bool,
    pub actual_via_indirect_props: bool,
    pub cr_comment: bool,
    pub linecont_used: bool,
    pub split_in_op: bool,
    form_inherit: BTreeMap<usize, usize>,
    show_kinds: BTreeSet<&'static str>,
    shown_once: bool,
    change_pending: bool,
    pub nontrivial: bool,
    visits: u32,
    qdepth: u32,
    strcount: u32,
    pub ops: u32,
}

impl<'a> Walk<'a> {
    pub fn new(c: &'a Case) -> Self {
        Walk {
            c,
            tables: c.fonts.iter().map(|f| font_table(f, c.hyphen_ok)).collect(),
            content: BTreeMap::new(),
            props: BTreeMap::new(),
            used_forms: BTreeMap::new(),
            expect: vec![Expect::default(); c.pages.len()],
            cur_page: 0,
            mc: Vec::new(),
            invalid: None,
            labels: BTreeSet::new(),
            risks: 0,
            indirect_enc_shown: false,
            shadow_shown: false,
            actual_via_indirect_props: false,
            cr_comment: false,
            linecont_used: false,
            split_in_op: false,
            form_inherit: BTreeMap::new(),
            show_kinds: BTreeSet::new(),
            shown_once: false,
            change_pending: false,
            nontrivial: false,
            visits: 0,
            qdepth: 0,
            strcount: 0,
            ops: 0,
        }
    }

    /// literal strings escape every non-printable byte, so a raw LF in the rendered bytes is always an operator separator
    fn eol(&self, buf: Vec<u8>) -> Vec<u8> {
        let sep: &[u8] = match self.c.eol % 4 {
            0 => return buf,
            1 => b"\r\n",
            2 => b" ",
            _ => b"\r",
        };
        let mut out = Vec::with_capacity(buf.len() + 16);
        for b in buf {
            if b == b'\n' {
                out.extend_from_slice(sep);
            } else {
                out.push(b);
            }
        }
        out
    }

    fn bad(&mut self, why: &'static str) {
        if self.invalid.is_none() {
            self.invalid = Some(why);
        }
    }

    fn label(&mut self, l: &str) {
        if !self.labels.contains(l) {
            self.labels.insert(l.to_string());
        }
    }

    fn res_of(&self, sid: Sid) -> &'a Res {
        match sid {
            Sid::Page(i) => &self.c.pages[i].res,
            Sid::Form(i) => &self.c.forms[i].res,
        }
    }

    fn wstr(&mut self, bytes: &[u8], out: &mut Vec<u8>) {
        self.strcount += 1;
        let hex = match self.c.hex {
            0 => false,
            1 => true,
            _ => self.strcount % 2 == 0,
        };
        if hex {
            out.push(b'<');
            for b in bytes {
                let _ = write!(out, "{b:02X}");
            }
            out.push(b'>');
        } else {
            out.push(b'(');
            let cont = self.c.linecont && self.c.eol % 4 != 2 && bytes.len() >= 2;
            if cont {
                self.linecont_used = true;
                self.label("syntax:string-line-continuation");
            }
            for (i, &b) in bytes.iter().enumerate() {
                if cont && i == 1 {
                    out.extend_from_slice(b"\\\n");
                }
                match b {
                    b'(' | b')' | b'\\' => {
                        out.push(b'\\');
                        out.push(b);
                    }
                    0x20..=0x7E => out.push(b),
                    _ => {
                        let _ = write!(out, "\\{b:03o}");
                    }
                }
            }
            out.push(b')');
        }
        if !self.c.compact {
            out.push(b' ');
        }
    }

    fn state_change(&mut self) {
        if self.shown_once {
            self.change_pending = true;
        }
    }

    /// bytes of a shown string under the current font; accounts the expected characters
    fn show(&mut self, kind: &'static str, picks: &[u16], st: &St) -> Vec<u8> {
        let Some(fi) = st.font else {
            self.bad("show-without-font-in-this-stream");
            return Vec::new();
        };
        if self.tables[fi].is_empty() {
            self.bad("font-without-showable-code");
            return Vec::new();
        }
        let mut bytes = Vec::new();
        let in_actual = self.mc.iter().any(|f| f.kind == 2);
        let in_art = self.mc.iter().any(|f| f.kind == 1);
        for p in picks {
            let e = self.tables[fi][pick_idx(*p, self.tables[fi].len())].clone();
            bytes.extend_from_slice(&e.code);
            if in_actual {
                if let Some(f) = self.mc.iter_mut().rev().find(|f| f.kind == 2) {
                    f.has_show = true;
                }
                continue;
            }
            self.risks |= e.risk;
            let ex = &mut self.expect[self.cur_page];
            for ch in e.text.chars().filter(|c| !c.is_whitespace()) {
                ex.all.push(ch);
                if !in_art {
                    ex.noart.push(ch);
                }
            }
        }
        let c: &'a Case = self.c;
        if !picks.is_empty() && !in_actual && st.inherited {
            self.label("show:font-inherited-by-form");
            if st.shadowed {
                self.shadow_shown = true;
                self.label("show:font-inherited-by-form,name-redefined");
            }
        }
        if !picks.is_empty() && !in_actual {
            if let FontSpec::Simple { enc_indirect: true, enc, diffs, tounicode, .. } = &c.fonts[fi] {
                if tounicode.is_empty() && (*enc != Enc::Builtin || !diffs.is_empty()) {
                    self.indirect_enc_shown = true;
                }
            }
            match &c.fonts[fi] {
                FontSpec::Type0 { .. } => self.label("show:type0"),
                FontSpec::Simple { tounicode, .. } if !tounicode.is_empty() => self.label("show:simple+tounicode"),
                FontSpec::Simple { enc, diffs, .. } => {
                    self.label(&format!("show:simple:{enc:?}"));
                    if !diffs.is_empty() {
                        self.label("show:simple:differences");
                    }
                }
            }
        }
        self.label(&format!("op:{kind}"));
        self.show_kinds.insert(kind);
        if self.shown_once && self.change_pending && self.show_kinds.len() >= 2 {
            self.nontrivial = true;
        }
        self.shown_once = true;
        bytes
    }

    fn mc_open(&mut self, m: &Mc, sid: Sid, out: &mut Vec<u8>) {
        let in_actual = self.mc.iter().any(|f| f.kind == 2);
        let mut frame = Frame { kind: 0, text: String::new(), has_show: false };
        match m {
            Mc::Span => out.extend_from_slice(b"/Span BMC\n"),
            Mc::SpanMcid(k) => {
                let _ = write!(out, "/Span <</MCID {k}>> BDC\n");
                self.label("mc:mcid");
            }
            Mc::P(k) => {
                let _ = write!(out, "/P <</MCID {k}>> BDC\n");
                self.label("mc:mcid");
            }
            Mc::Artifact | Mc::ArtifactProps => {
                if in_actual {
                    self.bad("artifact-inside-actualtext");
                }
                if matches!(m, Mc::Artifact) {
                    out.extend_from_slice(b"/Artifact BMC\n");
                } else {
                    out.extend_from_slice(b"/Artifact <</Type /Pagination /Subtype /Header>> BDC\n");
                }
                frame.kind = 1;
                self.label("mc:artifact");
            }
            Mc::Actual(text, mcid, via_props) => {
                if in_actual {
                    self.bad("nested-actualtext");
                }
                if text.chars().any(|c| c != ' ' && banned(c)) || (text.contains('-') && !self.c.hyphen_ok) {
                    self.bad("actualtext-outside-alphabet");
                }
                let val = if text.is_ascii() {
                    Obj::Str(text.as_bytes().to_vec())
                } else {
                    let mut b = vec![0xFE, 0xFF];
                    for u in text.encode_utf16() {
                        b.extend_from_slice(&u.to_be_bytes());
                    }
                    Obj::Str(b)
                };
                let mut d = Dict::new();
                if *mcid {
                    d.set(b"MCID", Obj::Int(7));
                }
                d.set(b"ActualText", val);
                if *via_props {
                    let list = self.props.entry(sid).or_default();
                    let _ = write!(out, "/Span /MC{} BDC\n", list.len());
                    list.push(d);
                    self.label("mc:actualtext:properties");
                    if self.res_of(sid).props_indirect % 3 != 0 {
                        self.actual_via_indirect_props = true;
                        self.label("mc:actualtext:properties-indirect");
                    }
                } else {
                    out.extend_from_slice(b"/Span ");
                    let style = if text.is_ascii() { synth::StrStyle::Literal } else { synth::StrStyle::Hex };
                    synth::write_dict(&d, style, out);
                    out.extend_from_slice(b" BDC\n");
                    self.label("mc:actualtext");
                }
                frame.kind = 2;
                frame.text = text.clone();
            }
            Mc::PropMcid(k) => {
                let mut d = Dict::new();
                d.set(b"MCID", Obj::Int(*k as i64));
                let list = self.props.entry(sid).or_default();
                let _ = write!(out, "/Span /MC{} BDC\n", list.len());
                list.push(d);
                self.label("mc:mcid:properties");
            }
        }
        self.mc.push(frame);
        self.ops += 1;
    }

    fn mc_close(&mut self, out: &mut Vec<u8>) {
        out.extend_from_slice(b"EMC\n");
        let Some(f) = self.mc.pop() else { return };
        if f.kind == 2 {
            if !f.has_show {
                self.bad("actualtext-scope-shows-no-glyph");
                return;
            }
            let in_art = self.mc.iter().any(|f| f.kind == 1);
            let ex = &mut self.expect[self.cur_page];
            for ch in f.text.chars().filter(|c| !c.is_whitespace()) {
                ex.all.push(ch);
                if !in_art {
                    ex.noart.push(ch);
                }
            }
        }
    }

    /// a text-state operator (legal inside and outside text objects); false → not a state operator
    fn state_op(&mut self, op: &TOp, sid: Sid, st: &mut St, out: &mut Vec<u8>) -> bool {
        match op {
            TOp::Tf(fp, size) => {
                let res = self.res_of(sid);
                if res.fonts.is_empty() || self.c.fonts.is_empty() {
                    self.bad("no-font-resource");
                    return true;
                }
                let k = pick_idx(*fp, res.fonts.len());
                let gi = pick_idx(res.fonts[k], self.c.fonts.len());
                *st = St { font: Some(gi), name: k, inherited: false, shadowed: false };
                let _ = write!(out, "/F{k} ");
                let size = if size.0 == 0 { Num(12000) } else { *size };
                wnum(size, out);
                out.extend_from_slice(b"Tf\n");
                self.label_if(size.0 < 0, "Tf:negative-size");
                self.label("op:Tf");
            }
            TOp::Tc(x) => self.num_op(*x, "Tc", out),
            TOp::Tw(x) => self.num_op(*x, "Tw", out),
            TOp::Tz(x) => {
                self.label_if(x.0 == 0, "Tz:0");
                self.num_op(*x, "Tz", out)
            }
            TOp::TL(x) => self.num_op(*x, "TL", out),
            TOp::Ts(x) => self.num_op(*x, "Ts", out),
            TOp::Tr(m) => {
                let m = *m % 8;
                let _ = write!(out, "{m} Tr\n");
                self.label(&format!("op:Tr{m}"));
            }
            _ => return false,
        }
        self.ops += 1;
        self.state_change();
        true
    }

    fn label_if(&mut self, c: bool, l: &str) {
        if c {
            self.label(l);
        }
    }

    fn num_op(&mut self, x: Num, op: &str, out: &mut Vec<u8>) {
        wnum(x, out);
        out.extend_from_slice(op.as_bytes());
        out.push(b'\n');
        self.label(&format!("op:{op}"));
    }

    fn tops(&mut self, ops: &[TOp], sid: Sid, st: &mut St, out: &mut Vec<u8>) {
        for op in ops {
            if self.state_op(op, sid, st, out) {
                continue;
            }
            self.ops += 1;
            match op {
                TOp::Tj(p) => {
                    let b = self.show("Tj", p, st);
                    self.wstr(&b, out);
                    out.extend_from_slice(b"Tj\n");
                }
                TOp::TJ(items) => {
                    let mut buf = vec![b'['];
                    for it in items {
                        match it {
                            TjItem::S(p) => {
                                let b = self.show("TJ", p, st);
                                self.wstr(&b, &mut buf);
                            }
                            TjItem::K(k) => {
                                self.label_if(k.0.abs() > 100_000_000, "TJ:kern>1e5");
                                wnum(*k, &mut buf);
                            }
                        }
                    }
                    if !items.iter().any(|i| matches!(i, TjItem::S(_))) {
                        self.label("TJ:no-string");
                    }
                    buf.extend_from_slice(if self.c.compact { b"]TJ\n" } else { b"] TJ\n" });
                    out.extend_from_slice(&buf);
                }
                TOp::Quote(p) => {
                    let b = self.show("'", p, st);
                    self.wstr(&b, out);
                    out.extend_from_slice(b"'\n");
                }
                TOp::DQuote(aw, ac, p) => {
                    wnum(*aw, out);
                    wnum(*ac, out);
                    let b = self.show("\"", p, st);
                    self.wstr(&b, out);
                    out.extend_from_slice(b"\"\n");
                }
                TOp::Td(x, y) => {
                    wnum(*x, out);
                    self.num_op(*y, "Td", out);
                    self.state_change();
                }
                TOp::TD(x, y) => {
                    wnum(*x, out);
                    self.num_op(*y, "TD", out);
                    self.state_change();
                }
                TOp::Tm(m) => {
                    let (rot, neg) = mat_class(m);
                    self.label_if(rot, "Tm:rotated/skewed");
                    self.label_if(neg, "Tm:negative-scale");
                    wmat(m, out);
                    out.extend_from_slice(b"Tm\n");
                    self.label("op:Tm");
                    self.state_change();
                }
                TOp::TStar => {
                    out.extend_from_slice(b"T*\n");
                    self.label("op:T*");
                    self.state_change();
                }
                TOp::Mc(m, inner) => {
                    self.mc_open(m, sid, out);
                    self.tops(inner, sid, st, out);
                    self.mc_close(out);
                }
                _ => {}
            }
        }
    }

    fn nodes(&mut self, nodes: &[Node], sid: Sid, level: u8, st: &mut St, out: &mut Vec<u8>) {
        for n in nodes {
            self.node(n, sid, level, st, out);
        }
    }

    fn node(&mut self, n: &Node, sid: Sid, level: u8, st: &mut St, out: &mut Vec<u8>) {
        match n {
            Node::Text(ops) => {
                if self.c.comments && self.c.eol % 4 != 2 {
                    out.extend_from_slice(b"%(x) Tj ET BT\n");
                    self.label("syntax:comment");
                    if self.c.eol % 4 == 3 {
                        self.cr_comment = true;
                    }
                }
                out.extend_from_slice(b"BT\n");
                self.tops(ops, sid, st, out);
                out.extend_from_slice(b"ET\n");
                self.ops += 2;
            }
            Node::Save(k, inner) => {
                let k = (*k as u32).min(12 - self.qdepth.min(12));
                for _ in 0..k {
                    out.extend_from_slice(b"q\n");
                }
                self.qdepth += k;
                self.label_if(self.qdepth >= 6, "q-depth>=6");
                self.label_if(self.qdepth == 12, "q-depth=12");
                let saved = st.clone();
                self.nodes(inner, sid, level, st, out);
                if k > 0 {
                    *st = saved;
                    self.state_change();
                }
                self.qdepth -= k;
                for _ in 0..k {
                    out.extend_from_slice(b"Q\n");
                }
                self.ops += 2 * k;
                self.label_if(k > 0, "op:q/Q");
            }
            Node::Cm(m) => {
                let (rot, neg) = mat_class(m);
                self.label_if(rot, "cm:rotated/skewed");
                self.label_if(neg, "cm:negative-scale");
                wmat(m, out);
                out.extend_from_slice(b"cm\n");
                self.label("op:cm");
                self.ops += 1;
                self.state_change();
            }
            Node::Do(pick) => {
                let cands: Vec<usize> = (0..self.c.forms.len()).filter(|&j| self.c.forms[j].level.clamp(1, 3) == level + 1).collect();
                if cands.is_empty() {
                    return;
                }
                let j = cands[pick_idx(*pick, cands.len())];
                if self.mc.iter().any(|f| f.kind == 2) {
                    self.bad("Do-inside-actualtext");
                }
                self.visits += 1;
                if self.visits > 48 {
                    self.bad("too-many-form-invocations");
                    return;
                }
                let _ = write!(out, "/Fm{j} Do\n");
                self.ops += 1;
                self.used_forms.entry(sid).or_default().insert(j);
                self.label(&format!("form-depth:{}", level + 1));
                self.label_if(self.mc.iter().any(|f| f.kind == 1), "Do-inside-artifact");
                self.state_change();
                // the form paints under an implicit q/Q; its own stream must set its font
                let mut fst = St::default();
                let fsid = Sid::Form(j);
                if self.c.forms[j].inherit_font {
                    if let Some(gi) = st.font {
                        // the rendered bytes of a form are fixed, so it must meet the same inherited font every time
                        if *self.form_inherit.entry(j).or_insert(gi) != gi {
                            self.bad("form-painted-under-different-inherited-fonts");
                        }
                        let fres = &self.c.forms[j].res;
                        let redefined = st.name < fres.fonts.len() && pick_idx(fres.fonts[st.name], self.c.fonts.len()) != gi;
                        fst = St { font: Some(gi), name: st.name, inherited: true, shadowed: st.shadowed || redefined };
                    }
                }
                self.props.insert(fsid, Vec::new());
                let mc_depth = self.mc.len();
                let mut buf = Vec::new();
                let c: &'a Case = self.c;
                let body = &c.forms[j].body;
                let saved_q = self.qdepth;
                self.qdepth = 0;
                self.nodes(body, fsid, level + 1, &mut fst, &mut buf);
                self.qdepth = saved_q;
                debug_assert_eq!(mc_depth, self.mc.len());
                self.label_if(self.c.forms[j].matrix.is_some(), "form:matrix");
                let buf = self.eol(buf);
                self.content.insert(fsid, vec![buf]);
                self.state_change();
            }
            Node::Mc(m, inner) => {
                self.mc_open(m, sid, out);
                self.nodes(inner, sid, level, st, out);
                self.mc_close(out);
            }
            Node::St(op) => {
                if !self.state_op(op, sid, st, out) {
                    // not a state operator: ignored (generator never produces it)
                }
            }
        }
    }

    pub fn run(&mut self) {
        for pi in 0..self.c.pages.len() {
            self.cur_page = pi;
            self.show_kinds.clear();
            self.shown_once = false;
            self.change_pending = false;
            self.visits = 0;
            let sid = Sid::Page(pi);
            self.props.insert(sid, Vec::new());
            let c: &'a Case = self.c;
            let page = &c.pages[pi];
            let mut st = St::default();
            let mut full = Vec::new();
            self.nodes(&page.body, sid, 0, &mut st, &mut full);
            // operator lines: an LF that follows a backslash is a continuation inside a string, not a boundary
            let mut lines: Vec<Vec<u8>> = Vec::new();
            let mut cur = Vec::new();
            for (i, &b) in full.iter().enumerate() {
                cur.push(b);
                if b == b'\n' && (i == 0 || full[i - 1] != b'\\') {
                    lines.push(std::mem::take(&mut cur));
                }
            }
            if !cur.is_empty() {
                lines.push(cur);
            }
            let n = lines.len();
            let cuts: BTreeSet<usize> = page.split.iter().take(2).map(|v| ((*v as usize % 5 + 1) * n) / 6).filter(|&k| k >= 1 && k < n).collect();
            let mut chunks: Vec<Vec<u8>> = vec![Vec::new()];
            for (k, line) in lines.iter().enumerate() {
                if cuts.contains(&k) {
                    // the boundary falls before line k, or (split_mid_op) between its operands and its operator
                    let body = &line[..line.len().saturating_sub(1)];
                    let sp = body.iter().rposition(|b| *b == b' ');
                    let op_ok = |w: &[u8]| !w.is_empty() && w.iter().all(|b| b.is_ascii_alphabetic() || matches!(b, b'\'' | b'"' | b'*'));
                    match sp {
                        Some(sp) if page.split_mid_op && op_ok(&body[sp + 1..]) && !body.contains(&b'%') => {
                            chunks.last_mut().unwrap().extend_from_slice(&line[..sp + 1]);
                            chunks.push(line[sp + 1..].to_vec());
                            self.split_in_op = true;
                            self.label("page:split-inside-operator");
                            continue;
                        }
                        _ => chunks.push(Vec::new()),
                    }
                }
                chunks.last_mut().unwrap().extend_from_slice(line);
            }
            self.label_if(chunks.len() > 1, "page:multi-stream");
            let chunks: Vec<Vec<u8>> = chunks.into_iter().map(|c| self.eol(c)).collect();
            self.content.insert(sid, chunks);
        }
        self.label_if(self.c.pages.len() > 1, "pages:2");
    }
}

// ───────────────────────────── document assembly ─────────────────────────────

fn nums_arr(m: &[Num; 6]) -> Obj {
    Obj::Arr(m.iter().map(|x| if x.0 % 1000 == 0 { Obj::Int(x.0 / 1000) } else { Obj::Real(x.0 as f64 / 1000.0) }).collect())
}

fn content_stream(data: &[u8], flate: bool, mut d: Dict) -> Obj {
    if flate {
        d.set(b"Filter", Obj::name("FlateDecode"));
        synth::stream(d, synth::zlib(data))
    } else {
        synth::stream(d, data.to_vec())
    }
}

struct Alloc(u32);
impl Alloc {
    fn next(&mut self) -> u32 {
        self.0 += 1;
        self.0
    }
}

/// writes the objects of one font; returns the value to put into /Font resource dictionaries
fn font_objects(f: &FontSpec, idx: usize, b: &mut Builder, al: &mut Alloc) -> Obj {
    match f {
        FontSpec::Simple { base, enc, diffs, enc_dict, enc_indirect, risk, tounicode, inline } => {
            let mut d = synth::dict(vec![
                ("Type", Obj::name("Font")),
                ("Subtype", Obj::name("Type1")),
                ("BaseFont", Obj::name(BASE_FONTS[*base as usize % BASE_FONTS.len()])),
            ]);
            let enc_name = match enc {
                Enc::WinAnsi => Some("WinAnsiEncoding"),
                Enc::MacRoman => Some("MacRomanEncoding"),
                Enc::Standard => Some("StandardEncoding"),
                Enc::Builtin => None,
            };
            let nd = norm_diffs(diffs);
            if !nd.is_empty() || (*enc_dict && enc_name.is_some()) {
                let mut e = synth::dict(vec![("Type", Obj::name("Encoding"))]);
                if let Some(n) = enc_name {
                    e.set(b"BaseEncoding", Obj::name(n));
                }
                if !nd.is_empty() {
                    let mut arr = Vec::new();
                    let mut prev: Option<u8> = None;
                    for (code, pick) in &nd {
                        if prev.map(|p| p.checked_add(1) != Some(*code)).unwrap_or(true) {
                            arr.push(Obj::Int(*code as i64));
                        }
                        arr.push(Obj::name(diff_name(*pick, *risk).0));
                        prev = Some(*code);
                    }
                    e.set(b"Differences", Obj::Arr(arr));
                }
                if *enc_indirect {
                    let n = al.next();
                    b.add_object(n, 0, &Obj::Dict(e));
                    d.set(b"Encoding", Obj::Ref(n, 0));
                } else {
                    d.set(b"Encoding", Obj::Dict(e));
                }
            } else if let Some(n) = enc_name {
                d.set(b"Encoding", Obj::name(n));
            }
            if !tounicode.is_empty() {
                let n = al.next();
                b.add_object(n, 0, &synth::stream(Dict::new(), cmap_text(&layout_segs(tounicode, 1), 1)));
                d.set(b"ToUnicode", Obj::Ref(n, 0));
            }
            if *inline {
                Obj::Dict(d)
            } else {
                let n = al.next();
                b.add_object(n, 0, &Obj::Dict(d));
                Obj::Ref(n, 0)
            }
        }
        FontSpec::Type0 { segs, desc_indirect, flate, inline } => {
            let name = format!("AAAAA{}+Synth{}", (b'A' + (idx as u8 % 26)) as char, idx);
            let fd = al.next();
            b.add_object(
                fd,
                0,
                &Obj::Dict(synth::dict(vec![
                    ("Type", Obj::name("FontDescriptor")),
                    ("FontName", Obj::name(&name)),
                    ("Flags", Obj::Int(4)),
                    ("FontBBox", synth::arr_nums(&[-100.0, -250.0, 1100.0, 950.0])),
                    ("ItalicAngle", Obj::Int(0)),
                    ("Ascent", Obj::Int(900)),
                    ("Descent", Obj::Int(-200)),
                    ("CapHeight", Obj::Int(700)),
                    ("StemV", Obj::Int(80)),
                ])),
            );
            let cid = synth::dict(vec![
                ("Type", Obj::name("Font")),
                ("Subtype", Obj::name("CIDFontType2")),
                ("BaseFont", Obj::name(&name)),
                (
                    "CIDSystemInfo",
                    Obj::Dict(synth::dict(vec![("Registry", Obj::str(b"Adobe")), ("Ordering", Obj::str(b"Identity")), ("Supplement", Obj::Int(0))])),
                ),
                ("FontDescriptor", Obj::Ref(fd, 0)),
                ("DW", Obj::Int(1000)),
                ("W", Obj::Arr(vec![Obj::Int(1), Obj::Arr(vec![Obj::Int(500), Obj::Int(600), Obj::Int(250)])])),
                ("CIDToGIDMap", Obj::name("Identity")),
            ]);
            let desc = if *desc_indirect {
                let n = al.next();
                b.add_object(n, 0, &Obj::Dict(cid));
                Obj::Ref(n, 0)
            } else {
                Obj::Dict(cid)
            };
            let tu = al.next();
            b.add_object(tu, 0, &content_stream(&cmap_text(&layout_segs(segs, 2), 2), *flate, Dict::new()));
            let d = synth::dict(vec![
                ("Type", Obj::name("Font")),
                ("Subtype", Obj::name("Type0")),
                ("BaseFont", Obj::name(&name)),
                ("Encoding", Obj::name("Identity-H")),
                ("DescendantFonts", Obj::Arr(vec![desc])),
                ("ToUnicode", Obj::Ref(tu, 0)),
            ]);
            if *inline {
                Obj::Dict(d)
            } else {
                let n = al.next();
                b.add_object(n, 0, &Obj::Dict(d));
                Obj::Ref(n, 0)
            }
        }
    }
}

fn resources(c: &Case, w: &Walk, sid: Sid, res: &Res, font_objs: &[Obj], form_nums: &[u32], b: &mut Builder, al: &mut Alloc) -> Obj {
    let mut r = Dict::new();
    r.set(b"ProcSet", Obj::Arr(vec![Obj::name("PDF"), Obj::name("Text")]));
    if !res.fonts.is_empty() && !c.fonts.is_empty() {
        let mut fd = Dict::new();
        for (k, p) in res.fonts.iter().enumerate() {
            fd.set(format!("F{k}").as_bytes(), font_objs[pick_idx(*p, c.fonts.len())].clone());
        }
        if res.font_dict_indirect {
            let n = al.next();
            b.add_object(n, 0, &Obj::Dict(fd));
            r.set(b"Font", Obj::Ref(n, 0));
        } else {
            r.set(b"Font", Obj::Dict(fd));
        }
    }
    if let Some(used) = w.used_forms.get(&sid) {
        if !used.is_empty() {
            let mut xd = Dict::new();
            for j in used {
                xd.set(format!("Fm{j}").as_bytes(), Obj::Ref(form_nums[*j], 0));
            }
            if res.xobj_dict_indirect {
                let n = al.next();
                b.add_object(n, 0, &Obj::Dict(xd));
                r.set(b"XObject", Obj::Ref(n, 0));
            } else {
                r.set(b"XObject", Obj::Dict(xd));
            }
        }
    }
    if let Some(props) = w.props.get(&sid) {
        if !props.is_empty() {
            let mut pd = Dict::new();
            for (k, d) in props.iter().enumerate() {
                if res.props_indirect % 3 == 1 {
                    let n = al.next();
                    b.add_object(n, 0, &Obj::Dict(d.clone()));
                    pd.set(format!("MC{k}").as_bytes(), Obj::Ref(n, 0));
                } else {
                    pd.set(format!("MC{k}").as_bytes(), Obj::Dict(d.clone()));
                }
            }
            if res.props_indirect % 3 == 2 {
                let n = al.next();
                b.add_object(n, 0, &Obj::Dict(pd));
                r.set(b"Properties", Obj::Ref(n, 0));
            } else {
                r.set(b"Properties", Obj::Dict(pd));
            }
        }
    }
    if res.indirect {
        let n = al.next();
        b.add_object(n, 0, &Obj::Dict(r));
        Obj::Ref(n, 0)
    } else {
        Obj::Dict(r)
    }
}

pub fn build_pdf(c: &Case, w: &Walk) -> Vec<u8> {
    let mut b = Builder::new("1.7");
    b.style = synth::StrStyle::Hex; // object-level strings (ActualText in /Properties) as hex: byte-exact
    let mut al = Alloc(2);
    let font_objs: Vec<Obj> = c.fonts.iter().enumerate().map(|(i, f)| font_objects(f, i, &mut b, &mut al)).collect();
    let form_nums: Vec<u32> = c.forms.iter().map(|_| al.next()).collect();
    for (j, f) in c.forms.iter().enumerate() {
        let sid = Sid::Form(j);
        let Some(chunks) = w.content.get(&sid) else {
            // never painted: still a well-formed object so that numbering stays dense
            b.add_object(form_nums[j], 0, &Obj::Null);
            continue;
        };
        let res = resources(c, w, sid, &f.res, &font_objs, &form_nums, &mut b, &mut al);
        let mut d = synth::dict(vec![
            ("Type", Obj::name("XObject")),
            ("Subtype", Obj::name("Form")),
            ("BBox", synth::arr_nums(&[-100000.0, -100000.0, 100000.0, 100000.0])),
            ("Resources", res),
        ]);
        if let Some(m) = &f.matrix {
            d.set(b"Matrix", nums_arr(m));
        }
        b.add_object(form_nums[j], 0, &content_stream(&chunks[0], f.flate, d));
    }
    let mut kids = Vec::new();
    let mut inherited_res: Option<Obj> = None;
    for (pi, p) in c.pages.iter().enumerate() {
        let sid = Sid::Page(pi);
        let chunks = w.content.get(&sid).cloned().unwrap_or_default();
        let mut crefs = Vec::new();
        for ch in &chunks {
            let n = al.next();
            b.add_object(n, 0, &content_stream(ch, p.flate, Dict::new()));
            crefs.push(Obj::Ref(n, 0));
        }
        let res = resources(c, w, sid, &p.res, &font_objs, &form_nums, &mut b, &mut al);
        let mut d = synth::dict(vec![
            ("Type", Obj::name("Page")),
            ("Parent", Obj::Ref(2, 0)),
            ("MediaBox", synth::arr_nums(&[0.0, 0.0, 612.0, 792.0])),
        ]);
        // inheritance only when the document has a single page (one /Pages node carries one dictionary)
        if p.inherited && c.pages.len() == 1 {
            inherited_res = Some(res);
        } else {
            d.set(b"Resources", res);
        }
        d.set(b"Contents", if crefs.len() == 1 { crefs.remove(0) } else { Obj::Arr(crefs) });
        let n = al.next();
        b.add_object(n, 0, &Obj::Dict(d));
        kids.push(Obj::Ref(n, 0));
    }
    let mut pages = synth::dict(vec![("Type", Obj::name("Pages")), ("Count", Obj::Int(kids.len() as i64)), ("Kids", Obj::Arr(kids))]);
    if let Some(r) = inherited_res {
        pages.set(b"Resources", r);
    }
    b.add_object(2, 0, &Obj::Dict(pages));
    b.add_object(1, 0, &Obj::Dict(synth::dict(vec![("Type", Obj::name("Catalog")), ("Pages", Obj::Ref(2, 0))])));
    b.finish_classic(&synth::dict(vec![("Root", Obj::Ref(1, 0))]));
    b.out
}

// ───────────────────────────── oracle ─────────────────────────────

const SPACE_T: [f64; 3] = [0.05, 0.3, 2.0];
const TJ_T: [f64; 3] = [0.01, 0.2, 1.5];
const NL_T: [f64; 3] = [0.5, 10.0, 200.0];
const COL_T: [f64; 3] = [5.0, 50.0, 400.0];

fn lib_opts(s: &OptSet, hyphen_ok: bool) -> ExtractionOptions {
    ExtractionOptions {
        preserve_layout: s.preserve_layout,
        space_threshold: SPACE_T[s.space_threshold as usize % 3],
        tj_space_threshold: TJ_T[s.tj_space_threshold as usize % 3],
        newline_threshold: NL_T[s.newline_threshold as usize % 3],
        sort_by_position: s.sort_by_position,
        detect_columns: s.detect_columns,
        column_threshold: COL_T[s.column_threshold as usize % 3],
        merge_hyphenated: s.merge_hyphenated && !hyphen_ok,
        track_space_decisions: s.track_space_decisions,
        reconstruct_paragraphs: s.reconstruct_paragraphs,
        include_artifacts: s.include_artifacts,
        reorder_columns: s.reorder_columns,
        max_extracted_bytes: if s.max_bytes { Some(16 << 20) } else { None },
    }
}

fn extractor(s: &OptSet, hyphen_ok: bool) -> TextExtractor {
    let cr = match s.cr % 3 {
        0 => CarriageReturnHandling::Remove,
        1 => CarriageReturnHandling::ReplaceWithSpace,
        _ => CarriageReturnHandling::NormalizeLineEnding,
    };
    TextExtractor::with_options(lib_opts(s, hyphen_ok)).with_reading_order(s.reading_order).with_carriage_return_handling(cr)
}

fn path_tag(s: &OptSet) -> &'static str {
    if s.preserve_layout {
        if s.reconstruct_paragraphs {
            "layout+paragraphs"
        } else {
            "layout"
        }
    } else if s.reorder_columns {
        "reorder-columns"
    } else if s.reading_order {
        "flat+reading-order"
    } else {
        "flat"
    }
}

fn multiset<I: IntoIterator<Item = char>>(it: I) -> BTreeMap<char, i64> {
    let mut m = BTreeMap::new();
    for c in it {
        if !c.is_whitespace() {
            *m.entry(c).or_insert(0) += 1;
        }
    }
    m
}

fn ms_diff(exp: &BTreeMap<char, i64>, got: &BTreeMap<char, i64>) -> (String, String) {
    let mut missing = String::new();
    let mut extra = String::new();
    let keys: BTreeSet<char> = exp.keys().chain(got.keys()).copied().collect();
    for k in keys {
        let d = got.get(&k).copied().unwrap_or(0) - exp.get(&k).copied().unwrap_or(0);
        let tgt = if d < 0 { &mut missing } else { &mut extra };
        if d != 0 && tgt.len() < 200 {
            tgt.push_str(&format!("{:?}×{} ", k, d.abs()));
        }
    }
    (missing, extra)
}

struct PageOut {
    text: String,
    frags: String,
    frag_text: String,
    truncated: bool,
}

fn run_pages(doc: &PdfDocument<Cursor<Vec<u8>>>, ex: &mut TextExtractor, n: usize) -> Result<Vec<PageOut>, String> {
    let mut v = Vec::new();
    for p in 0..n {
        match ex.extract_from_page(doc, p as u32) {
            Ok(t) => v.push(PageOut { frags: format!("{:?}", t.fragments), frag_text: t.fragments.iter().map(|f| f.text.as_str()).collect(), text: t.text, truncated: t.truncated }),
            Err(e) => return Err(format!("page {p}: {e}")),
        }
    }
    Ok(v)
}

/// cause attributed to a conservation failure: the most specific recorded-defect region the page drew from
fn cause(w: &Walk) -> &'static str {
    // regions whose failure is certain once a glyph from them is shown come first
    if w.risks & RISK_DIFF != 0 {
        "font=simple,Differences-glyph-name"
    } else if w.risks & RISK_MAC != 0 {
        "font=simple,MacRoman-code>=0xA0"
    } else if w.risks & RISK_STD != 0 {
        "font=simple,StandardEncoding-code-differs-from-Latin1"
    } else if w.risks & RISK_WIN != 0 {
        "font=simple,WinAnsi-0x93-0x94"
    } else if w.indirect_enc_shown {
        "font=simple,Encoding-dictionary-indirect"
    } else if w.split_in_op {
        "page,content-streams-split-between-operands-and-operator"
    } else if w.cr_comment {
        "syntax,comment-ended-by-CR"
    } else if w.actual_via_indirect_props {
        "mc,ActualText-in-indirect-property-list"
    } else if w.shadow_shown {
        "form,inherited-font-name-redefined-in-form-resources"
    } else if w.linecont_used {
        "syntax,literal-string-line-continuation"
    } else {
        "general"
    }
}

fn open(bytes: &[u8]) -> Result<PdfDocument<Cursor<Vec<u8>>>, String> {
    let reader = PdfReader::new(Cursor::new(bytes.to_vec())).map_err(|e| format!("{e}"))?;
    Ok(PdfDocument::new(reader))
}

pub fn check(c: &Case) -> Outcome {
    let mut o = Outcome::new();
    if c.pages.is_empty() || c.opts.is_empty() || c.fonts.is_empty() {
        o.label("invalid:empty");
        return o;
    }
    let mut w = Walk::new(c);
    w.run();
    if let Some(why) = w.invalid {
        o.label(format!("invalid:{why}"));
        return o;
    }
    for l in &w.labels {
        o.label(l.clone());
    }
    let total: usize = w.expect.iter().map(|e| e.all.len()).sum();
    o.label_if(total == 0, "no-visible-character");
    o.label_if(c.hyphen_ok, "hyphen-alphabet");
    o.label(format!("region:{}", cause(&w)));
    o.label(format!("ops/page:{}", match w.ops as usize / c.pages.len() { 0..=9 => "<10", 10..=24 => "10-24", 25..=40 => "25-40", _ => ">40" }));
    o.nontrivial(w.nontrivial);

    let bytes = build_pdf(c, &w);

    // trusted-base gate: the synthesized file is valid and carries exactly the rendered content
    let rep = refpdf::validate::validate(&bytes, None);
    if !rep.problems.is_empty() {
        o.fail("C11/harness-document-valid", "validator", format!("{:?}", rep.problems.iter().take(3).collect::<Vec<_>>()));
        return o;
    }
    match refpdf::Reader::open(&bytes, None).and_then(|rd| rd.pages().map(|p| (rd, p))) {
        Ok((rd, pages)) => {
            if pages.len() != c.pages.len() {
                o.fail("C11/harness-document-valid", "page-count", format!("{} vs {}", pages.len(), c.pages.len()));
                return o;
            }
            for (pi, p) in pages.iter().enumerate() {
                let chunks = &w.content[&Sid::Page(pi)];
                let want: Vec<u8> = if chunks.len() == 1 {
                    chunks[0].clone()
                } else {
                    chunks.iter().flat_map(|c| c.iter().copied().chain(std::iter::once(b'\n'))).collect()
                };
                match rd.page_content(p) {
                    Ok(got) if got == want => {}
                    other => {
                        o.fail("C11/harness-document-valid", "content-readback", format!("page {pi}: {:?}", other.map(|g| g.len())));
                        return o;
                    }
                }
            }
        }
        Err(e) => {
            o.fail("C11/harness-document-valid", "independent-reader", format!("{e:?}"));
            return o;
        }
    }

    let doc = match open(&bytes) {
        Ok(d) => d,
        Err(e) => {
            o.fail("C11/opens", "synthesized-document", e);
            return o;
        }
    };
    let np = c.pages.len();
    let cause = cause(&w);
    let mut cons_fail: Vec<(usize, String)> = Vec::new();
    let mut frag_fail: Option<String> = None;
    let modulo_hyphen = c.hyphen_ok && c.hyphen_merge;
    o.label_if(modulo_hyphen, "hyphen-alphabet,merge-as-configured");
    for (si, s) in c.opts.iter().enumerate() {
        let tag = path_tag(s);
        let mut ex = extractor(s, c.hyphen_ok && !c.hyphen_merge);
        let r1 = match run_pages(&doc, &mut ex, np) {
            Ok(r) => r,
            Err(e) => {
                o.fail("C11/extracts", format!("path={tag}"), format!("option set {si}: {e}"));
                continue;
            }
        };
        // conservation
        for (pi, out) in r1.iter().enumerate() {
            let mut exp = multiset(if s.include_artifacts { w.expect[pi].all.iter().copied() } else { w.expect[pi].noart.iter().copied() });
            let mut got = multiset(out.text.chars());
            if modulo_hyphen && s.merge_hyphenated {
                let (drawn, shown) = (exp.remove(&'-').unwrap_or(0), got.remove(&'-').unwrap_or(0));
                if shown > drawn {
                    got.insert('-', shown - drawn); // more hyphens than were drawn: reported as unexpected
                }
            }
            if exp != got {
                let (missing, extra) = ms_diff(&exp, &got);
                let other = multiset(if s.include_artifacts { w.expect[pi].noart.iter().copied() } else { w.expect[pi].all.iter().copied() });
                let art = other == got && w.expect[pi].all.len() != w.expect[pi].noart.len();
                cons_fail.push((
                    si,
                    format!(
                        "option set {si} ({tag}, include_artifacts={}) page {pi}: missing [{}] unexpected [{}]{} — text {:?}",
                        s.include_artifacts,
                        missing.trim_end(),
                        extra.trim_end(),
                        if art { " (equals the multiset of the opposite include_artifacts setting)" } else { "" },
                        crate::engine::trunc(&out.text, 160)
                    ),
                ));
                break;
            }
            let mut fm = multiset(out.frag_text.chars());
            if modulo_hyphen && s.merge_hyphenated {
                let drawn = w.expect[pi].all.iter().filter(|c| **c == '-').count() as i64;
                let shown = fm.remove(&'-').unwrap_or(0);
                if shown > drawn {
                    fm.insert('-', shown - drawn);
                }
            }
            if s.preserve_layout && fm != exp {
                let (missing, extra) = ms_diff(&exp, &fm);
                frag_fail.get_or_insert(format!("option set {si} ({tag}) page {pi}: fragments missing [{}] unexpected [{}]", missing.trim_end(), extra.trim_end()));
            }
            if out.truncated {
                o.fail("C11/not-truncated", format!("path={tag}"), format!("option set {si} page {pi}: truncated with a 16 MiB / no limit"));
            }
            if !s.preserve_layout && !out.frags.eq("[]") {
                // documented: fragments only under preserve_layout — informational, not a clause of C11
                o.label("fragments-without-preserve_layout");
            }
        }
        // determinism: a second extractor, and the same extractor again
        let mut ex2 = extractor(s, c.hyphen_ok && !c.hyphen_merge);
        let again = [run_pages(&doc, &mut ex2, np), run_pages(&doc, &mut ex, np)];
        for (k, r2) in again.iter().enumerate() {
            match r2 {
                Ok(r2) => {
                    for (pi, (a, b)) in r1.iter().zip(r2).enumerate() {
                        if a.text != b.text || a.frags != b.frags || a.truncated != b.truncated {
                            o.fail(
                                "C11/deterministic",
                                format!("path={tag},{}", if k == 0 { "fresh-extractor" } else { "same-extractor" }),
                                format!("option set {si} page {pi}: {:?} then {:?}", crate::engine::trunc(&a.text, 120), crate::engine::trunc(&b.text, 120)),
                            );
                        }
                    }
                }
                Err(e) => o.fail("C11/deterministic", format!("path={tag},error-on-repeat"), e.clone()),
            }
        }
        if si == 0 {
            // whole-document entry point and a freshly parsed document give the same pages
            let mut ex3 = extractor(s, c.hyphen_ok && !c.hyphen_merge);
            match ex3.extract_from_document(&doc) {
                Ok(all) => {
                    if all.len() != np || all.iter().zip(&r1).any(|(a, b)| a.text != b.text) {
                        o.fail("C11/document-equals-pages", format!("path={tag}"), format!("extract_from_document gave {:?}", all.iter().map(|t| crate::engine::trunc(&t.text, 80)).collect::<Vec<_>>()));
                    }
                }
                Err(e) => o.fail("C11/document-equals-pages", format!("path={tag},error"), format!("{e}")),
            }
            if let Ok(doc2) = open(&bytes) {
                let mut ex4 = extractor(s, c.hyphen_ok && !c.hyphen_merge);
                if let Ok(r4) = run_pages(&doc2, &mut ex4, np) {
                    if r4.iter().zip(&r1).any(|(a, b)| a.text != b.text || a.frags != b.frags) {
                        o.fail("C11/deterministic", format!("path={tag},fresh-document"), "a freshly opened document extracts differently".to_string());
                    }
                }
            }
        }
    }
    if let (Some(d), true) = (frag_fail, cons_fail.is_empty()) {
        o.fail("C11/fragments-conserve", cause.to_string(), d);
    }
    if !cons_fail.is_empty() {
        let path = if cons_fail.len() == c.opts.len() { "all".to_string() } else { path_tag(&c.opts[cons_fail[0].0]).to_string() };
        let class = if cause == "general" { format!("general,path={path}") } else { cause.to_string() };
        o.fail("C11/conservation", class, cons_fail[0].1.clone());
    }
    o
}

// ───────────────────────────── generators ─────────────────────────────

/// probabilities of drawing from regions with a recorded library defect
#[derive(Clone, Copy, Debug)]
pub struct GenParams {
    pub p_diff: f64,
    pub p_mac: f64,
    pub p_std: f64,
    pub p_win: f64,
    pub p_encind: f64,
    pub p_propind: f64,
    pub p_splitop: f64,
    pub p_comment: f64,
    pub p_linecont: f64,
}

const POOL: &str = "ABCXYZabcxyz0189!?#%&*+=@()[]<>/\\.,:;éßÆøñÜαβγΩЖжЯ中文字あア€•—😀𠀀";

fn pool_char() -> impl Strategy<Value = char> {
    prop::sample::select(POOL.chars().collect::<Vec<_>>())
}

fn dst() -> impl Strategy<Value = String> {
    prop_oneof![
        8 => prop::collection::vec(pool_char(), 1..2),
        3 => prop::collection::vec(pool_char(), 2..4),
        1 => Just(vec![' ']),
    ]
    .prop_map(|v| v.into_iter().collect())
}

fn seg() -> impl Strategy<Value = Seg> {
    let gap = prop_oneof![5 => 0u8..4, 1 => any::<u8>()];
    let prefix = prop_oneof![4 => Just(String::new()), 1 => prop::collection::vec(pool_char(), 1..3).prop_map(|v| v.into_iter().collect::<String>())];
    prop_oneof![
        3 => (gap.clone(), dst()).prop_map(|(gap, dst)| Seg::Ch { gap, dst }),
        2 => (gap, 0u8..8, any::<u8>(), 1u8..12, prefix, any::<bool>()).prop_map(|(gap, run, off, n, prefix, arr)| Seg::Rg { gap, run, off, n, prefix, arr }),
    ]
}

fn font(gp: GenParams) -> BoxedStrategy<FontSpec> {
    let w = |p: f64| prop::bool::weighted(p.clamp(0.0, 1.0));
    let risk = (w(gp.p_diff), w(gp.p_mac), w(gp.p_std), w(gp.p_win)).prop_map(|(a, b, c, d)| a as u8 * RISK_DIFF | b as u8 * RISK_MAC | c as u8 * RISK_STD | d as u8 * RISK_WIN);
    let enc = prop::sample::select(vec![Enc::WinAnsi, Enc::WinAnsi, Enc::MacRoman, Enc::Standard, Enc::Builtin]);
    let diffs = prop_oneof![1 => Just(Vec::new()), 1 => prop::collection::vec((0x21u8..=0xFF, any::<u16>()), 1..7)];
    let tu = prop_oneof![4 => Just(Vec::new()), 1 => prop::collection::vec(seg(), 1..8)];
    let simple = (0u8..6, enc, diffs, any::<bool>(), w(gp.p_encind), risk, tu, any::<bool>()).prop_map(|(base, enc, diffs, enc_dict, enc_indirect, risk, tounicode, inline)| FontSpec::Simple {
        base,
        enc,
        diffs,
        enc_dict,
        enc_indirect,
        risk,
        tounicode,
        inline,
    });
    let type0 = (prop::collection::vec(seg(), 1..10), any::<bool>(), any::<bool>(), any::<bool>()).prop_map(|(segs, desc_indirect, flate, inline)| FontSpec::Type0 { segs, desc_indirect, flate, inline });
    prop_oneof![3 => simple, 2 => type0].boxed()
}

fn num(lo: i64, hi: i64) -> BoxedStrategy<Num> {
    prop_oneof![3 => (lo / 1000..hi / 1000).prop_map(|v| Num(v * 1000)), 2 => (lo..hi).prop_map(Num)].boxed()
}

fn coord() -> BoxedStrategy<Num> {
    num(-300_000, 900_000)
}

fn small() -> BoxedStrategy<Num> {
    num(-20_000, 20_000)
}

fn kern() -> BoxedStrategy<Num> {
    prop_oneof![
        6 => num(-400_000, 400_000),
        2 => num(-5_000_000, 5_000_000),
        1 => prop::sample::select(vec![i32::MAX as i64 * 1000, i32::MIN as i64 * 1000, 3_000_000_000_000, -3_000_000_000_000, 1_000_000_000_000_000, -999_999_999_999_500]).prop_map(Num),
    ]
    .boxed()
}

fn fontsize() -> BoxedStrategy<Num> {
    prop_oneof![6 => num(4_000, 40_000), 1 => Just(Num(1000)), 1 => Just(Num(144_000)), 1 => num(-20_000, -4_000)].boxed()
}

fn scale() -> BoxedStrategy<Num> {
    prop_oneof![4 => (100i64..5000).prop_map(Num), 1 => (-3000i64..-100).prop_map(Num)].boxed()
}

fn matrix() -> BoxedStrategy<[Num; 6]> {
    prop_oneof![
        3 => (coord(), coord()).prop_map(|(e, f)| [N1, N0, N0, N1, e, f]),
        2 => (scale(), scale(), coord(), coord()).prop_map(|(a, d, e, f)| [a, N0, N0, d, e, f]),
        2 => (0u16..360, scale(), coord(), coord()).prop_map(|(deg, s, e, f)| {
            let (sn, cs) = (deg as f64).to_radians().sin_cos();
            let k = s.0 as f64;
            let (a, b) = ((cs * k).round() as i64, (sn * k).round() as i64);
            [Num(a), Num(b), Num(-b), Num(a), e, f]
        }),
        1 => ((-3000i64..3000), (-3000i64..3000), (-3000i64..3000), (-3000i64..3000), coord(), coord()).prop_map(|(a, b, c, d, e, f)| {
            if (a * d - b * c).abs() < 10_000 {
                [N1, N0, N0, N1, e, f]
            } else {
                [Num(a), Num(b), Num(c), Num(d), e, f]
            }
        }),
    ]
    .boxed()
}

fn picks() -> BoxedStrategy<Vec<u16>> {
    prop::collection::vec(any::<u16>(), 0..7).boxed()
}

fn picks1() -> BoxedStrategy<Vec<u16>> {
    prop::collection::vec(any::<u16>(), 1..5).boxed()
}

fn state_top() -> BoxedStrategy<TOp> {
    prop_oneof![
        3 => (any::<u16>(), fontsize()).prop_map(|(f, s)| TOp::Tf(f, s)),
        1 => small().prop_map(TOp::Tc),
        1 => small().prop_map(TOp::Tw),
        1 => prop_oneof![4 => num(10_000, 300_000), 1 => Just(N0), 1 => num(-150_000, -50_000)].prop_map(TOp::Tz),
        1 => num(-5_000, 40_000).prop_map(TOp::TL),
        1 => small().prop_map(TOp::Ts),
        1 => (0u8..8).prop_map(TOp::Tr),
    ]
    .boxed()
}

fn leaf_top() -> BoxedStrategy<TOp> {
    let tjitem = prop_oneof![3 => picks().prop_map(TjItem::S), 2 => kern().prop_map(TjItem::K)];
    prop_oneof![
        5 => state_top(),
        6 => picks().prop_map(TOp::Tj),
        5 => prop::collection::vec(tjitem, 0..7).prop_map(TOp::TJ),
        3 => picks().prop_map(TOp::Quote),
        3 => (small(), small(), picks()).prop_map(|(a, b, p)| TOp::DQuote(a, b, p)),
        3 => (coord(), coord()).prop_map(|(x, y)| TOp::Td(x, y)),
        2 => (coord(), num(-40_000, 40_000)).prop_map(|(x, y)| TOp::TD(x, y)),
        2 => matrix().prop_map(TOp::Tm),
        2 => Just(TOp::TStar),
    ]
    .boxed()
}

fn mc_plain() -> BoxedStrategy<Mc> {
    prop_oneof![
        2 => Just(Mc::Span),
        2 => (0u8..4).prop_map(Mc::SpanMcid),
        2 => (0u8..4).prop_map(Mc::P),
        3 => Just(Mc::Artifact),
        1 => Just(Mc::ArtifactProps),
        1 => (0u8..4).prop_map(Mc::PropMcid),
    ]
    .boxed()
}

fn actual() -> BoxedStrategy<Mc> {
    let text = prop::collection::vec(prop_oneof![8 => pool_char(), 1 => Just(' ')], 1..6).prop_map(|v| v.into_iter().collect::<String>());
    (text, any::<bool>(), prop::bool::weighted(0.25)).prop_map(|(t, m, p)| Mc::Actual(t, m, p)).boxed()
}

/// /ActualText scope around leaf operators that is guaranteed to show ≥ 1 glyph
fn top_actual() -> BoxedStrategy<TOp> {
    (actual(), prop::collection::vec(leaf_top(), 0..4), picks1())
        .prop_map(|(m, mut ops, p)| {
            ops.push(TOp::Tj(p));
            TOp::Mc(m, ops)
        })
        .boxed()
}

fn tops() -> BoxedStrategy<Vec<TOp>> {
    let inner = prop_oneof![6 => leaf_top(), 1 => top_actual()];
    let el = prop_oneof![
        14 => leaf_top(),
        1 => (mc_plain(), prop::collection::vec(inner, 1..5)).prop_map(|(m, v)| TOp::Mc(m, v)),
        1 => top_actual(),
    ];
    prop::collection::vec(el, 1..8).boxed()
}

fn node() -> BoxedStrategy<Node> {
    let leaf = prop_oneof![
        8 => tops().prop_map(Node::Text),
        2 => matrix().prop_map(Node::Cm),
        3 => any::<u16>().prop_map(Node::Do),
        1 => state_top().prop_map(Node::St),
        1 => (actual(), prop::collection::vec(leaf_top(), 0..4), picks1()).prop_map(|(m, mut ops, p)| {
            ops.push(TOp::Tj(p));
            Node::Mc(m, vec![Node::Text(ops)])
        }),
    ];
    leaf.prop_recursive(3, 14, 3, |inner| {
        let k = prop_oneof![6 => 1u8..3, 1 => 3u8..13];
        prop_oneof![
            3 => (k, prop::collection::vec(inner.clone(), 1..4)).prop_map(|(k, v)| Node::Save(k, v)),
            1 => (mc_plain(), prop::collection::vec(inner, 1..3)).prop_map(|(m, v)| Node::Mc(m, v)),
        ]
    })
    .boxed()
}

fn res(gp: GenParams) -> BoxedStrategy<Res> {
    (prop::collection::vec(any::<u16>(), 1..4), any::<bool>(), any::<bool>(), any::<bool>(), prop::bool::weighted(gp.p_propind), 1u8..3)
        .prop_map(|(fonts, indirect, font_dict_indirect, xobj_dict_indirect, pi, how)| Res { fonts, indirect, font_dict_indirect, xobj_dict_indirect, props_indirect: if pi { how } else { 0 } })
        .boxed()
}

fn tops_need_font(ops: &mut Vec<TOp>, has: &mut bool, tf: &TOp) {
    let mut i = 0;
    while i < ops.len() {
        let shows = match &mut ops[i] {
            TOp::Tf(..) => {
                *has = true;
                false
            }
            TOp::Tj(_) | TOp::Quote(_) | TOp::DQuote(..) => true,
            TOp::TJ(items) => items.iter().any(|x| matches!(x, TjItem::S(_))),
            TOp::Mc(_, inner) => {
                tops_need_font(inner, has, tf);
                false
            }
            _ => false,
        };
        if shows && !*has {
            ops.insert(i, tf.clone());
            *has = true;
            i += 1;
        }
        i += 1;
    }
}

/// inserts a Tf before the first show that would otherwise run without a font set in this stream
fn nodes_need_font(nodes: &mut Vec<Node>, has: &mut bool, tf: &TOp) {
    for n in nodes {
        match n {
            Node::Text(ops) => tops_need_font(ops, has, tf),
            Node::Save(_, inner) => {
                let saved = *has;
                nodes_need_font(inner, has, tf);
                *has = saved;
            }
            Node::Mc(_, inner) => nodes_need_font(inner, has, tf),
            Node::St(TOp::Tf(..)) => *has = true,
            _ => {}
        }
    }
}

fn body(max: usize, has_font: bool) -> BoxedStrategy<Vec<Node>> {
    (prop::collection::vec(node(), 1..max), any::<u16>(), fontsize())
        .prop_map(move |(mut nodes, f, s)| {
            let mut has = has_font;
            nodes_need_font(&mut nodes, &mut has, &TOp::Tf(f, s));
            nodes
        })
        .boxed()
}

fn page(gp: GenParams) -> BoxedStrategy<PageSpec> {
    (res(gp), body(5, false), prop::collection::vec(0u8..4, 0..3), any::<bool>(), prop::bool::weighted(0.15), prop::bool::weighted(gp.p_splitop))
        .prop_map(move |(res, body, split, flate, inherited, mid)| PageSpec { res, body, split, flate, inherited, split_mid_op: mid })
        .boxed()
}

fn form(gp: GenParams) -> BoxedStrategy<FormSpec> {
    let own = (prop_oneof![3 => Just(1u8), 2 => Just(2u8), 1 => Just(3u8)], res(gp), body(3, false), prop::option::weighted(0.6, matrix()), any::<bool>())
        .prop_map(|(level, res, body, matrix, flate)| FormSpec { level, res, body, matrix, flate, inherit_font: false });
    let inherit = (prop_oneof![3 => Just(1u8), 2 => Just(2u8), 1 => Just(3u8)], res(gp), body(3, true), prop::option::weighted(0.6, matrix()), any::<bool>())
        .prop_map(|(level, res, body, matrix, flate)| FormSpec { level, res, body, matrix, flate, inherit_font: true });
    prop_oneof![6 => own, 1 => inherit].boxed()
}

fn optset(kind: u8) -> BoxedStrategy<OptSet> {
    let bools = (any::<bool>(), any::<bool>(), any::<bool>(), any::<bool>(), any::<bool>(), any::<bool>(), any::<bool>(), any::<bool>());
    let rest = (0u8..3, 0u8..3, 0u8..3, 0u8..3, any::<bool>(), any::<bool>(), 0u8..3);
    (bools, rest)
        .prop_map(move |((pl, sp, dc, mh, ts, rp, ia, rc), (st, tj, nl, ct, mb, ro, cr))| {
            let mut s = OptSet {
                preserve_layout: pl,
                sort_by_position: sp,
                detect_columns: dc,
                merge_hyphenated: mh,
                track_space_decisions: ts,
                reconstruct_paragraphs: rp,
                include_artifacts: ia,
                reorder_columns: rc,
                space_threshold: st,
                tj_space_threshold: tj,
                newline_threshold: nl,
                column_threshold: ct,
                max_bytes: mb,
                reading_order: ro,
                cr,
            };
            match kind {
                0 => {
                    s = OptSet {
                        preserve_layout: false,
                        sort_by_position: true,
                        detect_columns: false,
                        merge_hyphenated: true,
                        track_space_decisions: false,
                        reconstruct_paragraphs: false,
                        include_artifacts: false,
                        reorder_columns: false,
                        space_threshold: 1,
                        tj_space_threshold: 1,
                        newline_threshold: 1,
                        column_threshold: 1,
                        max_bytes: false,
                        reading_order: false,
                        cr: 0,
                    }
                }
                1 => {
                    s.preserve_layout = false;
                    s.reorder_columns = false;
                    s.reading_order = true;
                }
                2 => s.preserve_layout = true,
                3 => {
                    s.preserve_layout = false;
                    s.reorder_columns = true;
                }
                _ => {}
            }
            s
        })
        .boxed()
}

/// raw material: every recorded-defect feature is generated freely, `restrict` then keeps at most one
const GP_RAW: GenParams = GenParams { p_diff: 0.5, p_mac: 0.5, p_std: 0.5, p_win: 0.5, p_encind: 0.5, p_propind: 0.6, p_splitop: 0.7, p_comment: 0.4, p_linecont: 0.7 };

/// regions of the input space in which a library defect is recorded; a case draws from at most one of them,
/// so that a failure is attributed unambiguously and one finding never hides behind another
pub const REGIONS: [&str; 10] = [SIG_DIFF, SIG_MAC, SIG_STD, SIG_WIN, SIG_ENCIND, SIG_PROPIND, SIG_SPLITOP, SIG_CRCOMMENT, SIG_LINECONT, SIG_SHADOW];

/// removes the first Tf of a stream (depth first) so that its first show runs with the inherited font
fn strip_first_tf_tops(ops: &mut Vec<TOp>) -> bool {
    for i in 0..ops.len() {
        match &mut ops[i] {
            TOp::Tf(..) => {
                ops.remove(i);
                return true;
            }
            TOp::Mc(_, inner) => {
                if strip_first_tf_tops(inner) {
                    return true;
                }
            }
            _ => {}
        }
    }
    false
}

fn strip_first_tf(nodes: &mut Vec<Node>) -> bool {
    for i in 0..nodes.len() {
        let done = match &mut nodes[i] {
            Node::Text(ops) => strip_first_tf_tops(ops),
            Node::Save(_, inner) | Node::Mc(_, inner) => strip_first_tf(inner),
            Node::St(TOp::Tf(..)) => {
                nodes.remove(i);
                return true;
            }
            _ => false,
        };
        if done {
            return true;
        }
    }
    false
}

fn restrict(mut c: Case, region: u8) -> Case {
    // inside a region the feature is switched on wherever it applies, so that the region is really exercised
    for (i, f) in c.fonts.iter_mut().enumerate() {
        if let FontSpec::Simple { enc, diffs, tounicode, .. } = f {
            if tounicode.is_empty() {
                match region {
                    1 if diffs.is_empty() => diffs.push((0x41 + i as u8, 40_000)),
                    2 => *enc = Enc::MacRoman,
                    3 if !matches!(enc, Enc::Standard | Enc::Builtin) => *enc = Enc::Standard,
                    4 => *enc = Enc::WinAnsi,
                    _ => {}
                }
            }
        }
    }
    match region {
        7 => {
            for p in &mut c.pages {
                p.split_mid_op = true;
                if p.split.is_empty() {
                    p.split.push(2);
                }
            }
        }
        8 => {
            c.eol = 3;
            c.comments = true;
        }
        9 => {
            c.hex = 0;
            c.linecont = true;
        }
        10 => {
            for f in &mut c.forms {
                if !f.inherit_font && f.level <= 1 && strip_first_tf(&mut f.body) {
                    f.inherit_font = true;
                }
            }
        }
        _ => {}
    }
    for f in &mut c.fonts {
        if let FontSpec::Simple { risk, enc_indirect, .. } = f {
            *risk = match region {
                1 => RISK_DIFF,
                2 => RISK_MAC,
                3 => RISK_STD,
                4 => RISK_WIN,
                _ => 0,
            };
            *enc_indirect = region == 5;
        }
    }
    for p in &mut c.pages {
        if region != 6 {
            p.res.props_indirect = 0;
        }
        if region != 7 {
            p.split_mid_op = false;
        }
    }
    for f in &mut c.forms {
        if region != 6 {
            f.res.props_indirect = 0;
        }
        if region != 10 && f.inherit_font {
            f.inherit_font = false;
            let mut has = false;
            nodes_need_font(&mut f.body, &mut has, &TOp::Tf(0, Num(12_000)));
        }
    }
    if region != 8 && c.eol % 4 == 3 {
        c.comments = false;
    }
    if region != 9 {
        c.linecont = false;
    }
    c
}

pub fn strategy(known: [bool; 10]) -> BoxedStrategy<Case> {
    let gp = GP_RAW;
    // half of the cases stay outside every recorded region; the other half is spread over the regions (5 % each)
    let mut sel: Vec<u8> = vec![0; 60];
    for (i, k) in known.iter().enumerate() {
        sel.extend(std::iter::repeat(i as u8 + 1).take(if *k { 6 } else { 12 }));
    }
    let region = prop::sample::select(sel);
    let pages = prop_oneof![4 => prop::collection::vec(page(gp), 1..2), 1 => prop::collection::vec(page(gp), 2..3)];
    let opts = (optset(0), optset(1), optset(2), optset(3), optset(4), optset(5)).prop_map(|(a, b, c, d, e, f)| vec![a, b, c, d, e, f]);
    (prop::collection::vec(font(gp), 1..5), pages, prop::collection::vec(form(gp), 0..5), opts, (prop::bool::weighted(0.25), prop::bool::weighted(0.4)), 0u8..3, prop::bool::weighted(0.3), prop_oneof![3 => Just(0u8), 1 => Just(1u8), 1 => Just(2u8), 1 => Just(3u8)], (prop::bool::weighted(gp.p_comment), prop::bool::weighted(gp.p_linecont), region))
        .prop_map(|(fonts, pages, forms, opts, (hyphen_ok, hm), hex, compact, eol, (comments, linecont, region))| {
            let hyphen_merge = hyphen_ok && hm;
            restrict(Case { fonts, pages, forms, opts, hyphen_ok, hyphen_merge, hex, compact, eol, comments, linecont }, region)
        })
        .boxed()
}

// ───────────────────────────── run / replay ─────────────────────────────

const SIG_ENCIND: &str = "C11/conservation|font=simple,Encoding-dictionary-indirect";
const SIG_DIFF: &str = "C11/conservation|font=simple,Differences-glyph-name";
const SIG_MAC: &str = "C11/conservation|font=simple,MacRoman-code>=0xA0";
const SIG_STD: &str = "C11/conservation|font=simple,StandardEncoding-code-differs-from-Latin1";
const SIG_PROPIND: &str = "C11/conservation|mc,ActualText-in-indirect-property-list";
const SIG_SPLITOP: &str = "C11/conservation|page,content-streams-split-between-operands-and-operator";
const SIG_CRCOMMENT: &str = "C11/conservation|syntax,comment-ended-by-CR";
const SIG_LINECONT: &str = "C11/conservation|syntax,literal-string-line-continuation";
const SIG_SHADOW: &str = "C11/conservation|form,inherited-font-name-redefined-in-form-resources";
const SIG_WIN: &str = "C11/conservation|font=simple,WinAnsi-0x93-0x94";

fn run(ctx: &Ctx) {
    let mut known = [false; 10];
    for (i, sig) in REGIONS.iter().enumerate() {
        known[i] = ctx.known_sig(sig);
    }
    ctx.run_sub("page", ctx.tier.pick(60_000, 600_000), move || strategy(known), check);
}

fn replay(ctx: &Ctx, sub: &str, case: &Value) -> Result<Outcome, String> {
    match sub.trim_start_matches("replay:") {
        "page" => ctx.replay_case::<Case, _>(case, check),
        s => Err(format!("unknown sub-check {s}")),
    }
}
