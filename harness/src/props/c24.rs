//! C24 — embedded raster images decode to the pixels that were supplied.
//!
//! sub `png`: PNG files from the harness encoder (`refpng`, gated by the independent `png` crate, whose
//! output is the reference) → `Image::from_png_data` → one-image document → `to_bytes` → independent
//! reader → image XObject (+ /SMask, /Mask) → filters decoded by the independent reader AND by the
//! library's parser (must agree) → interpreted by `interpret()` below (ISO 32000-1 §8.9.5) → must equal
//! the reference pixels and alpha.
//! sub `raw`: random buffers → `from_raw_data` / `from_rgba_data` / `from_gray_data` → same pipeline →
//! pixels equal the input; buffers of the wrong length must be refused.
use crate::engine::{pick_idx, Ctx, Outcome, PropertyDef};
use crate::refpdf::{self, Dict, Obj};
use crate::refpng::{self, PngSpec, Trns};
use oxidize_pdf::graphics::{ColorSpace, Image};
use oxidize_pdf::parser::{PdfObject, PdfReader};
use oxidize_pdf::{Document, Page};
use proptest::prelude::*;
use serde::{Deserialize, Serialize};
use serde_json::Value;

pub fn def() -> PropertyDef {
    PropertyDef {
        id: "C24",
        level: "exploration",
        rule: "sub `png`: a case is a PNG description (colour type {0,2,3,4,6} × legal bit depth, 1–33 × 1–17 pixels incl. 1×1 and widths that are not a multiple of 8 at 1/2/4 bit, random or few-colour samples, PLTE of 1–2^depth entries, tRNS as palette alpha / grey key / RGB key (key taken from the image, random, or a 16-bit near miss), Adam7 or not, a filter type 0–4 per scanline, IDAT split into chunks of 0–40 bytes, zlib level 0–9, optional ancillary chunks and suggested PLTE) encoded by the harness encoder; sub `raw`: a random buffer for from_raw_data (grey/RGB at 1,2,4,8,16 bit), from_rgba_data or from_gray_data, plus wrong-length buffers. Non-trivial: the library accepted the input, the document was written and re-read and the pixel comparison was reached, and the case is not the plainest one (8-bit RGB, non-interlaced, no tRNS, filter 0 only); distinct by hash of the case. When C24 findings are listed in known_findings.jsonl the PNG generator puts ~10 % of its cases into the regions they affect (16-bit, 1/2/4-bit, tRNS), ~30 % into the regions the library refuses with an error (interlaced, palette) and the rest into 8-bit grey/RGB/grey-alpha/RGBA.",
        assumptions: &[
            "reference pixels = output of the `png` crate 0.18 with Transformations::EXPAND, normalised to RGBA at 8 bit (16 bit for 16-bit files); each generated file is additionally required to decode to the pixels the generator intended (model from PNG §12.5/§11.2/§11.3.2), so a disagreement between encoder, model and `png` is a harness bug (`gate-rejected`/`gate-mismatch`), not a verdict",
            "an `Err` from Image::from_png_data / from_*_data / to_bytes is accepted (value-or-error); only wrong pixels, wrong alpha, missing data or a panic are violations",
            "colour is compared where the reference alpha is non-zero (the colour of a fully transparent pixel cannot be observed); alpha is compared everywhere",
            "sample values are compared as the intensities they denote (v/(2^bits−1)), so any /BitsPerComponent, Indexed colour space, [1 0] /Decode, /SMask, colour-key or stencil /Mask that denotes the same picture is accepted; for 16-bit sources an 8-bit result is also accepted when it is, for the whole image, either `>> 8` or the rounded (v·255+32895)>>16 reduction",
            "surplus bytes after the last image row are tolerated; too few bytes are not",
        ],
        trusted_base: &["refpng encoder + model (300 lines)", "png crate 0.18 (fdeflate, crc32fast)", "refpdf strict reader and filters", "interpret(): image dictionary → pixels (150 lines)"],
        run,
        replay,
    }
}

// ───────────────────────────── interpretation of an image XObject ─────────────────────────────

/// RGBA-like pixel planes with the bit depth each plane's values are expressed in.
#[derive(Debug, Clone)]
pub struct Picture {
    pub w: u32,
    pub h: u32,
    pub colour: Vec<[u16; 3]>,
    pub cdepth: u8,
    pub alpha: Vec<u16>,
    pub adepth: u8,
    pub notes: Vec<String>,
}

pub enum IErr {
    /// fewer bytes than rows × row length
    Short(String),
    /// a form the harness routine does not model
    Unsupported(String),
    /// the dictionary violates §8.9.5
    Invalid(String),
}

fn row_bytes(w: u32, ncomp: usize, bpc: u8) -> usize {
    (w as usize * ncomp * bpc as usize).div_ceil(8)
}

/// §8.9.3: samples are packed MSB first, each row starts on a byte boundary, 16-bit samples big-endian
pub fn unpack(data: &[u8], w: u32, h: u32, ncomp: usize, bpc: u8) -> Result<Vec<u16>, IErr> {
    let rb = row_bytes(w, ncomp, bpc);
    let need = rb * h as usize;
    if data.len() < need {
        return Err(IErr::Short(format!("{} bytes of image data, {}×{}×{} components at {} bit need {}", data.len(), w, h, ncomp, bpc, need)));
    }
    let per_row = w as usize * ncomp;
    let mut out = Vec::with_capacity(per_row * h as usize);
    for y in 0..h as usize {
        let row = &data[y * rb..(y + 1) * rb];
        match bpc {
            16 => {
                for i in 0..per_row {
                    out.push(u16::from_be_bytes([row[2 * i], row[2 * i + 1]]));
                }
            }
            8 => out.extend(row[..per_row].iter().map(|b| *b as u16)),
            1 | 2 | 4 => {
                for i in 0..per_row {
                    let bit = i * bpc as usize;
                    let byte = row[bit / 8];
                    let shift = 8 - bpc as usize - (bit % 8);
                    out.push(((byte >> shift) & ((1u8 << bpc) - 1)) as u16);
                }
            }
            _ => return Err(IErr::Invalid(format!("/BitsPerComponent {bpc}"))),
        }
    }
    Ok(out)
}

fn dims(d: &Dict) -> Result<(u32, u32), IErr> {
    match (d.int(b"Width"), d.int(b"Height")) {
        (Some(w), Some(h)) if w > 0 && h > 0 && w < 1 << 20 && h < 1 << 20 => Ok((w as u32, h as u32)),
        other => Err(IErr::Invalid(format!("/Width /Height = {other:?}"))),
    }
}

fn bpc_of(d: &Dict) -> Result<u8, IErr> {
    match d.int(b"BitsPerComponent") {
        Some(b @ (1 | 2 | 4 | 8 | 16)) => Ok(b as u8),
        other => Err(IErr::Invalid(format!("/BitsPerComponent {other:?}"))),
    }
}

/// /Decode: None = default, Some(true) = inverted. Anything else is not modelled.
fn decode_inverted(rd: &refpdf::Reader, d: &Dict, ncomp: usize, indexed: bool, bpc: u8) -> Result<bool, IErr> {
    let Some(v) = d.get(b"Decode") else { return Ok(false) };
    let v = rd.resolve(v).map_err(|e| IErr::Invalid(format!("{e:?}")))?;
    let Some(a) = v.as_arr() else { return Err(IErr::Invalid("/Decode not an array".into())) };
    let nums: Vec<f64> = a.iter().filter_map(|x| x.as_num()).collect();
    if nums.len() != 2 * ncomp || nums.len() != a.len() {
        return Err(IErr::Invalid(format!("/Decode has {} numbers for {} components", a.len(), ncomp)));
    }
    let hi = if indexed { ((1u32 << bpc) - 1) as f64 } else { 1.0 };
    if nums.chunks(2).all(|p| p[0] == 0.0 && p[1] == hi) {
        Ok(false)
    } else if nums.chunks(2).all(|p| p[0] == hi && p[1] == 0.0) {
        Ok(true)
    } else {
        Err(IErr::Unsupported(format!("/Decode {nums:?}")))
    }
}

enum Cs {
    Gray,
    Rgb,
    Indexed { base_rgb: bool, hival: usize, lookup: Vec<u8> },
}

fn colour_space(rd: &refpdf::Reader, d: &Dict) -> Result<Cs, IErr> {
    let cs = d.get(b"ColorSpace").ok_or_else(|| IErr::Invalid("no /ColorSpace".into()))?;
    let cs = rd.resolve(cs).map_err(|e| IErr::Invalid(format!("{e:?}")))?;
    let simple = |n: &[u8]| -> Result<bool, IErr> {
        match n {
            b"DeviceGray" | b"G" => Ok(false),
            b"DeviceRGB" | b"RGB" => Ok(true),
            other => Err(IErr::Unsupported(format!("colour space /{}", String::from_utf8_lossy(other)))),
        }
    };
    match &cs {
        Obj::Name(n) => Ok(if simple(n)? { Cs::Rgb } else { Cs::Gray }),
        Obj::Arr(a) if a.len() == 1 => match &a[0] {
            Obj::Name(n) => Ok(if simple(n)? { Cs::Rgb } else { Cs::Gray }),
            other => Err(IErr::Invalid(format!("colour space {other:?}"))),
        },
        Obj::Arr(a) if a.len() == 4 && matches!(a[0].as_name(), Some(b"Indexed") | Some(b"I")) => {
            let base = rd.resolve(&a[1]).map_err(|e| IErr::Invalid(format!("{e:?}")))?;
            let base_rgb = match base.as_name() {
                Some(n) => simple(n)?,
                None => return Err(IErr::Unsupported(format!("Indexed base {base:?}"))),
            };
            let hival = match rd.resolve(&a[2]) {
                Ok(Obj::Int(h)) if (0..=255).contains(&h) => h as usize,
                other => return Err(IErr::Invalid(format!("Indexed hival {other:?}"))),
            };
            let lookup = match rd.resolve(&a[3]) {
                Ok(Obj::Str(s)) => s,
                Ok(Obj::Stream(s)) => rd.stream_data(&s).map_err(|e| IErr::Invalid(format!("lookup stream: {e:?}")))?,
                other => return Err(IErr::Invalid(format!("Indexed lookup {other:?}"))),
            };
            let n = if base_rgb { 3 } else { 1 };
            if lookup.len() < (hival + 1) * n {
                return Err(IErr::Invalid(format!("Indexed lookup has {} bytes, hival {}", lookup.len(), hival)));
            }
            Ok(Cs::Indexed { base_rgb, hival, lookup })
        }
        other => Err(IErr::Unsupported(format!("colour space {other:?}"))),
    }
}

/// One plane of a DeviceGray image (soft mask): values and their depth.
fn grey_plane(rd: &refpdf::Reader, s: &refpdf::Stream, what: &str) -> Result<(u32, u32, Vec<u16>, u8), IErr> {
    let d = &s.dict;
    let (w, h) = dims(d)?;
    let bpc = bpc_of(d)?;
    match colour_space(rd, d)? {
        Cs::Gray => {}
        _ => return Err(IErr::Invalid(format!("{what} is not DeviceGray"))),
    }
    if d.get(b"Matte").is_some() {
        return Err(IErr::Unsupported("/Matte (pre-blended colour)".into()));
    }
    let inv = decode_inverted(rd, d, 1, false, bpc)?;
    let data = rd.stream_data(s).map_err(|e| IErr::Invalid(format!("{what} filters: {e:?}")))?;
    let mut v = unpack(&data, w, h, 1, bpc).map_err(|e| match e {
        IErr::Short(m) => IErr::Short(format!("{what}: {m}")),
        e => e,
    })?;
    if inv {
        let max = ((1u32 << bpc) - 1) as u16;
        v.iter_mut().for_each(|x| *x = max - *x);
    }
    Ok((w, h, v, bpc))
}

/// ISO 32000-1 §8.9.5 (image dictionaries), §8.9.6 (masked images), §11.6.5.3 (soft-mask images),
/// restricted to what can be compared exactly: DeviceGray/DeviceRGB/Indexed over those, default or
/// inverted /Decode, /SMask, colour-key /Mask, stencil /Mask of the same size.
pub fn interpret(rd: &refpdf::Reader, s: &refpdf::Stream, data: &[u8]) -> Result<Picture, IErr> {
    let d = &s.dict;
    if d.name(b"Subtype") != Some(b"Image") {
        return Err(IErr::Invalid("/Subtype is not /Image".into()));
    }
    if matches!(d.get(b"ImageMask"), Some(Obj::Bool(true))) {
        return Err(IErr::Unsupported("/ImageMask true".into()));
    }
    let (w, h) = dims(d)?;
    let bpc = bpc_of(d)?;
    let cs = colour_space(rd, d)?;
    let mut notes = Vec::new();
    let (ncomp, indexed) = match &cs {
        Cs::Gray => (1, false),
        Cs::Rgb => (3, false),
        Cs::Indexed { .. } => (1, true),
    };
    if indexed && bpc == 16 {
        return Err(IErr::Invalid("Indexed with 16 bits per component".into()));
    }
    let inv = decode_inverted(rd, d, ncomp, indexed, bpc)?;
    let need = row_bytes(w, ncomp, bpc) * h as usize;
    if data.len() > need {
        notes.push(format!("surplus-image-data:{}>{}", data.len(), need));
    }
    let raw = unpack(data, w, h, ncomp, bpc)?;
    let max = ((1u32 << bpc) - 1) as u16;
    let val = |x: u16| if inv { max - x } else { x };
    let npix = w as usize * h as usize;
    let mut colour = Vec::with_capacity(npix);
    let cdepth;
    match &cs {
        Cs::Gray => {
            cdepth = bpc;
            colour.extend(raw.iter().map(|&g| [val(g); 3]));
        }
        Cs::Rgb => {
            cdepth = bpc;
            colour.extend(raw.chunks_exact(3).map(|p| [val(p[0]), val(p[1]), val(p[2])]));
        }
        Cs::Indexed { base_rgb, hival, lookup } => {
            cdepth = 8;
            for &i in &raw {
                let i = (val(i) as usize).min(*hival); // §8.6.6.3: out-of-range indices are clamped
                colour.push(if *base_rgb {
                    [lookup[3 * i] as u16, lookup[3 * i + 1] as u16, lookup[3 * i + 2] as u16]
                } else {
                    [lookup[i] as u16; 3]
                });
            }
        }
    }
    // transparency
    let mut alpha = vec![1u16; npix];
    let mut adepth = 1u8;
    let smask = match d.get(b"SMask") {
        None | Some(Obj::Null) => None,
        Some(o) => match rd.resolve(o) {
            Ok(Obj::Stream(m)) => Some(m),
            Ok(Obj::Null) => None,
            other => return Err(IErr::Invalid(format!("/SMask {other:?}"))),
        },
    };
    if let Some(m) = smask {
        let (mw, mh, v, b) = grey_plane(rd, &m, "/SMask")?;
        if (mw, mh) != (w, h) {
            return Err(IErr::Unsupported(format!("/SMask is {mw}×{mh}, image {w}×{h} (resampling not modelled)")));
        }
        notes.push("smask".into());
        alpha = v;
        adepth = b;
    } else if let Some(mo) = d.get(b"Mask") {
        match rd.resolve(mo) {
            Ok(Obj::Arr(a)) => {
                let r: Vec<i64> = a.iter().filter_map(|x| x.as_int()).collect();
                if r.len() != 2 * ncomp || r.len() != a.len() {
                    return Err(IErr::Invalid(format!("colour-key /Mask {a:?} for {ncomp} components")));
                }
                notes.push("colour-key-mask".into());
                for (p, a) in raw.chunks_exact(ncomp).zip(alpha.iter_mut()) {
                    let masked = p.iter().zip(r.chunks(2)).all(|(s, mm)| (*s as i64) >= mm[0] && (*s as i64) <= mm[1]);
                    *a = if masked { 0 } else { 1 };
                }
            }
            Ok(Obj::Stream(m)) => {
                let md = &m.dict;
                if !matches!(md.get(b"ImageMask"), Some(Obj::Bool(true))) {
                    return Err(IErr::Invalid("/Mask stream without /ImageMask true".into()));
                }
                let (mw, mh) = dims(md)?;
                if (mw, mh) != (w, h) {
                    return Err(IErr::Unsupported(format!("stencil /Mask is {mw}×{mh}, image {w}×{h}")));
                }
                let minv = decode_inverted(rd, md, 1, false, 1)?;
                let mdata = rd.stream_data(&m).map_err(|e| IErr::Invalid(format!("/Mask filters: {e:?}")))?;
                let bits = unpack(&mdata, w, h, 1, 1).map_err(|e| match e {
                    IErr::Short(m) => IErr::Short(format!("/Mask: {m}")),
                    e => e,
                })?;
                notes.push("stencil-mask".into());
                // §8.9.6.2: with the default /Decode a mask sample of 1 marks a pixel that is NOT painted
                for (b, a) in bits.iter().zip(alpha.iter_mut()) {
                    let masked_out = (*b == 1) != minv;
                    *a = if masked_out { 0 } else { 1 };
                }
            }
            Ok(Obj::Null) => {}
            other => return Err(IErr::Invalid(format!("/Mask {other:?}"))),
        }
    }
    Ok(Picture { w, h, colour, cdepth, alpha, adepth, notes })
}

// ───────────────────────────── comparison ─────────────────────────────

fn maxv(depth: u8) -> u64 {
    (1u64 << depth) - 1
}

/// how a produced sample relates to the reference sample
#[derive(Default, Clone, Copy)]
struct Agree {
    exact: bool,
    trunc: bool,
    round: bool,
}

fn agree(v: u16, d: u8, r: u16, rd: u8) -> Agree {
    let exact = v as u64 * maxv(rd) == r as u64 * maxv(d);
    let reducible = rd == 16 && d == 8;
    Agree { exact, trunc: exact || (reducible && v == r >> 8), round: exact || (reducible && v as u32 == (r as u32 * 255 + 32895) >> 16) }
}

pub struct Reference {
    pub w: u32,
    pub h: u32,
    pub depth: u8,
    pub px: Vec<[u16; 4]>,
}

/// Compare; reports under the given class. Returns true when the comparison was actually performed.
fn compare(o: &mut Outcome, class: &str, class_alpha: &str, r: &Reference, p: &Picture) -> bool {
    if (p.w, p.h) != (r.w, r.h) {
        o.fail("C24/dimensions-equal-reference", class, format!("reference {}×{}, document image {}×{}", r.w, r.h, p.w, p.h));
        return false;
    }
    // colour
    let mut all = Agree { exact: true, trunc: true, round: true };
    let mut first_bad: Option<(usize, [u16; 3])> = None;
    let mut compared = 0usize;
    for (i, (rp, lp)) in r.px.iter().zip(p.colour.iter()).enumerate() {
        if rp[3] == 0 {
            continue;
        }
        compared += 1;
        for k in 0..3 {
            let a = agree(lp[k], p.cdepth, rp[k], r.depth);
            all.exact &= a.exact;
            all.trunc &= a.trunc;
            all.round &= a.round;
            if !a.trunc && !a.round && first_bad.is_none() {
                first_bad = Some((i, *lp));
            }
        }
    }
    o.label_if(compared == 0, "all-pixels-transparent");
    if !(all.exact || all.trunc || all.round) {
        let (i, lp) = first_bad.unwrap_or((0, p.colour.first().copied().unwrap_or([0; 3])));
        let rp = r.px[i];
        o.fail(
            "C24/colour-equals-reference",
            class,
            format!(
                "pixel ({},{}) of {}×{}: reference rgb {:?} at {} bit, document image gives {:?} at {} bit{}",
                i as u32 % r.w,
                i as u32 / r.w,
                r.w,
                r.h,
                &rp[..3],
                r.depth,
                lp,
                p.cdepth,
                if first_bad.is_none() { " (mixed 16→8 reductions)" } else { "" }
            ),
        );
    } else if !all.exact {
        o.label(if all.trunc { "colour-16to8-truncated" } else { "colour-16to8-rounded" });
    }
    // alpha
    let mut all = Agree { exact: true, trunc: true, round: true };
    let mut first_bad: Option<usize> = None;
    for (i, (rp, la)) in r.px.iter().zip(p.alpha.iter()).enumerate() {
        let a = agree(*la, p.adepth, rp[3], r.depth);
        all.exact &= a.exact;
        all.trunc &= a.trunc;
        all.round &= a.round;
        if !a.trunc && !a.round && first_bad.is_none() {
            first_bad = Some(i);
        }
    }
    if !(all.exact || all.trunc || all.round) {
        let i = first_bad.unwrap_or(0);
        o.fail(
            "C24/alpha-equals-reference",
            class_alpha,
            format!(
                "pixel ({},{}) of {}×{}: reference alpha {} at {} bit, document image gives {} at {} bit ({})",
                i as u32 % r.w,
                i as u32 / r.w,
                r.w,
                r.h,
                r.px[i][3],
                r.depth,
                p.alpha[i],
                p.adepth,
                if p.notes.is_empty() { "no mask".to_string() } else { p.notes.join(",") }
            ),
        );
    } else if !all.exact {
        o.label(if all.trunc { "alpha-16to8-truncated" } else { "alpha-16to8-rounded" });
    }
    true
}

// ───────────────────────────── the pipeline under test ─────────────────────────────

const IMAGE_NAME: &str = "Im1";

/// image → document → bytes → independent reader → picture → comparison. Returns true when compared.
fn pipeline(o: &mut Outcome, img: Image, reference: &Reference, class: &str, class_alpha: &str, writer: u8) -> bool {
    let mut doc = Document::new();
    let mut page = Page::new(200.0, 150.0);
    page.add_image(IMAGE_NAME, img);
    if let Err(e) = page.draw_image(IMAGE_NAME, 10.0, 20.0, 120.0, 90.0) {
        o.fail("C24/image-drawn", class, format!("draw_image of an added image failed: {e}"));
        return false;
    }
    doc.add_page(page);
    let bytes = match writer {
        1 => doc.to_bytes_with_config(oxidize_pdf::writer::WriterConfig::modern()),
        _ => doc.to_bytes(),
    };
    let bytes = match bytes {
        Ok(b) => b,
        Err(e) => {
            o.label(format!("write-err:{}", crate::engine::trunc(&e.to_string(), 40)));
            return false;
        }
    };
    let rd = match refpdf::Reader::open(&bytes, None) {
        Ok(r) => r,
        Err(e) => {
            o.fail("C24/file-readable", format!("writer={writer}"), format!("independent reader: {e:?}"));
            return false;
        }
    };
    let found = (|| -> Result<(u32, u16, refpdf::Stream, Vec<u8>), String> {
        let pages = rd.pages().map_err(|e| format!("{e:?}"))?;
        let p = pages.first().ok_or("no page")?;
        let res = p.inherited.get(b"Resources").ok_or("page has no /Resources")?;
        let Obj::Dict(res) = rd.resolve(res).map_err(|e| format!("{e:?}"))? else { return Err("/Resources not a dictionary".into()) };
        let xo = res.get(b"XObject").ok_or("no /XObject in /Resources")?;
        let Obj::Dict(xo) = rd.resolve(xo).map_err(|e| format!("{e:?}"))? else { return Err("/XObject not a dictionary".into()) };
        let Some(Obj::Ref(n, g)) = xo.get(IMAGE_NAME.as_bytes()) else { return Err(format!("/XObject has no indirect /{IMAGE_NAME}: {xo:?}")) };
        let Obj::Stream(s) = rd.resolve(&Obj::Ref(*n, *g)).map_err(|e| format!("{e:?}"))? else { return Err("image XObject is not a stream".into()) };
        let content = rd.page_content(p).map_err(|e| format!("{e:?}"))?;
        Ok((*n, *g, *s, content))
    })();
    let (n, g, stream, content) = match found {
        Ok(x) => x,
        Err(e) => {
            o.fail("C24/image-xobject-present", format!("writer={writer}"), e);
            return false;
        }
    };
    let needle = format!("/{IMAGE_NAME} Do");
    if !content.windows(needle.len()).any(|w| w == needle.as_bytes()) {
        o.fail("C24/image-drawn", class, format!("page content does not paint /{IMAGE_NAME}: {:?}", String::from_utf8_lossy(&content)));
    }
    // filters: independent decoding and the library's own decoding must agree
    let data = match rd.stream_data(&stream) {
        Ok(d) => d,
        Err(e) => {
            o.fail("C24/image-filters-decodable", class, format!("independent filter decoding of {:?}: {e:?}", stream.dict));
            return false;
        }
    };
    match library_decode(&bytes, n, g) {
        Ok(lib) => {
            if lib != data {
                o.fail(
                    "C24/filter-decoding-agrees",
                    class,
                    format!("object {n}: independent decoding gives {} bytes, library's PdfStream::decode {} bytes (first difference at {:?})", data.len(), lib.len(), data.iter().zip(lib.iter()).position(|(a, b)| a != b)),
                );
            }
        }
        Err(e) => o.fail("C24/filter-decoding-agrees", class, format!("library could not read back / decode its own image object {n}: {e}")),
    }
    let pic = match interpret(&rd, &stream, &data) {
        Ok(p) => p,
        Err(IErr::Short(m)) => {
            o.fail("C24/image-data-complete", class, format!("{m}; dictionary {:?}", stream.dict));
            return false;
        }
        Err(IErr::Invalid(m)) => {
            o.fail("C24/image-dictionary-valid", class, format!("{m}; dictionary {:?}", stream.dict));
            return false;
        }
        Err(IErr::Unsupported(m)) => {
            o.fail("C24/image-interpretable", class, format!("the harness routine does not model {m}; dictionary {:?}", stream.dict));
            return false;
        }
    };
    for n in &pic.notes {
        o.label(format!("pdf:{}", n.split(':').next().unwrap_or("")));
    }
    o.label(format!("pdf:bpc={}", pic.cdepth));
    compare(o, class, class_alpha, reference, &pic)
}

fn library_decode(bytes: &[u8], n: u32, g: u16) -> Result<Vec<u8>, String> {
    let mut pr = PdfReader::new(std::io::Cursor::new(bytes.to_vec())).map_err(|e| format!("PdfReader::new: {e}"))?;
    let opts = pr.options().clone();
    match pr.get_object(n, g).map_err(|e| format!("get_object: {e}"))? {
        PdfObject::Stream(s) => s.decode(&opts).map_err(|e| format!("decode: {e}")),
        other => Err(format!("object is not a stream: {other:?}")),
    }
}

// ───────────────────────────── sub-check `png` ─────────────────────────────

#[derive(Clone, Debug, Serialize, Deserialize)]
pub struct PngCase {
    pub spec: PngSpec,
    /// 0 = Document::to_bytes, 1 = WriterConfig::modern (xref + object streams)
    pub writer: u8,
}

fn trns_name(t: &Trns) -> &'static str {
    match t {
        Trns::None => "none",
        Trns::Palette(_) => "palette-alpha",
        Trns::Grey(_) => "grey-key",
        Trns::Rgb(..) => "rgb-key",
    }
}

/// Discriminating class of a PNG case for every clause but alpha: the sample-depth region it falls into.
fn png_class(s: &PngSpec) -> String {
    let base = if s.depth == 16 {
        "depth=16".to_string()
    } else if s.depth < 8 {
        format!("depth<8,ct={}", s.ct)
    } else {
        format!("ct={},depth=8", s.ct)
    };
    if s.interlace {
        format!("{base},interlaced")
    } else {
        base
    }
}

/// Class for the alpha clause: the tRNS form when there is one (that is where the alpha comes from).
fn png_class_alpha(s: &PngSpec) -> String {
    if s.trns != Trns::None {
        format!("tRNS={}{}", trns_name(&s.trns), if s.interlace { ",interlaced" } else { "" })
    } else {
        png_class(s)
    }
}

fn err_category(e: &str) -> String {
    let e = e.to_ascii_lowercase();
    for (k, v) in [("interlace", "interlaced-unsupported"), ("insufficient", "insufficient-data"), ("decompress", "decompression"), ("filter", "filter"), ("color type", "colour-type"), ("chunk", "chunk")] {
        if e.contains(k) {
            return v.to_string();
        }
    }
    "other".into()
}

pub fn check_png(c: &PngCase) -> Outcome {
    let mut o = Outcome::new();
    let s = &c.spec;
    if let Err(e) = s.legal() {
        o.label(format!("illegal-spec:{e}"));
        return o;
    }
    o.label(format!("ct={},depth={}", s.ct, s.depth));
    o.label_if(s.interlace, "interlaced");
    o.label(format!("tRNS={}", trns_name(&s.trns)));
    o.label_if(s.w == 1 && s.h == 1, "1x1");
    o.label_if(s.depth < 8 && (s.w as usize * s.channels() * s.depth as usize) % 8 != 0, "row-not-byte-aligned");
    o.label_if(s.interlace && (s.w < 5 || s.h < 5), "interlaced-with-empty-passes");
    let mut used = [false; 5];
    let nlines = if s.interlace { 15 } else { s.h as usize };
    for i in 0..nlines.max(1) {
        used[*s.filters.get(i % s.filters.len().max(1)).unwrap_or(&0) as usize] = true;
    }
    for (f, u) in used.iter().enumerate() {
        o.label_if(*u, &format!("filter={f}"));
    }
    o.label_if(!s.idat_split.is_empty(), "idat-split");
    o.label_if(s.ancillary, "ancillary-chunks");
    o.label_if(s.ct != 3 && !s.plte.is_empty(), "suggested-plte");
    if s.ct == 3 {
        o.label(match s.plte.len() {
            1 => "plte=1",
            256 => "plte=256",
            _ => "plte=2..255",
        });
    }
    let file = s.encode();
    o.label_if(file.windows(4).filter(|w| w == b"IDAT").count() > 1, "idat-multiple");
    // gate: the independent decoder accepts the file and sees the intended pixels
    let (rw, rh, rdepth, rpx) = match refpng::reference_pixels(&file) {
        Ok(r) => r,
        Err(e) => {
            o.label(format!("gate-rejected:{}", crate::engine::trunc(&e, 60)));
            return o;
        }
    };
    if (rw, rh, rdepth) != (s.w, s.h, s.ref_depth()) || rpx != s.model_pixels() {
        o.label("gate-mismatch");
        return o;
    }
    let reference = Reference { w: rw, h: rh, depth: rdepth, px: rpx };
    o.label_if(reference.px.iter().any(|p| p[3] == 0), "has-fully-transparent-pixel");
    o.label_if(reference.px.iter().any(|p| p[3] != 0 && (p[3] as u64) < maxv(rdepth)), "has-partial-alpha");
    let class = png_class(s);
    let class_alpha = png_class_alpha(s);
    let img = match Image::from_png_data(file) {
        Ok(i) => i,
        Err(e) => {
            o.label(format!("lib-err:{}", err_category(&e.to_string())));
            o.label(format!("lib-err@{class}"));
            return o;
        }
    };
    o.label("lib-accepted");
    let compared = pipeline(&mut o, img, &reference, &class, &class_alpha, c.writer);
    let plain = s.ct == 2 && s.depth == 8 && !s.interlace && s.trns == Trns::None && s.filters.iter().all(|f| *f == 0);
    o.nontrivial(compared && !plain);
    o.label_if(compared, "compared");
    o
}

#[derive(Clone, Debug)]
struct Hdr {
    ct: u8,
    depth: u8,
    w: u32,
    h: u32,
    interlace: bool,
    want_trns: bool,
    plte_len: usize,
    few: u8,
    writer: u8,
}

const COMBOS: [(u8, u8); 15] = [(0, 1), (0, 2), (0, 4), (0, 8), (0, 16), (2, 8), (2, 16), (3, 1), (3, 2), (3, 4), (3, 8), (4, 8), (4, 16), (6, 8), (6, 16)];

fn hdr_strategy(steer: bool) -> impl Strategy<Value = Hdr> {
    let w = prop_oneof![1 => Just(1u32), 1 => Just(8u32), 8 => 1u32..=33];
    let h = prop_oneof![1 => Just(1u32), 8 => 1u32..=17];
    (0u8..100, any::<u16>(), 0u8..100, 0u8..100, w, h, any::<u16>(), 0u8..8, 0u8..4).prop_map(move |(region, sel, il, tr, mut w, mut h, pl, few, wr)| {
        let (ct, depth);
        let mut interlace = il < 35;
        let mut want_trns = tr < 45;
        if steer {
            if region < 60 {
                // outside every listed finding: 8-bit, no palette, no tRNS, not interlaced
                (ct, depth) = [(0, 8), (2, 8), (4, 8), (6, 8)][pick_idx(sel, 4)];
                interlace = false;
                want_trns = false;
            } else if region < 70 {
                // inside the listed findings
                let k = pick_idx(sel, 11);
                interlace = false;
                match k {
                    0..=3 => {
                        (ct, depth) = [(0, 16), (2, 16), (4, 16), (6, 16)][k];
                    }
                    4..=8 => {
                        (ct, depth) = [(0, 1), (0, 2), (0, 4), (3, 1), (3, 2)][k - 4];
                        w = 1; // the only width at which the library does not refuse these
                    }
                    _ => {
                        (ct, depth) = [(0, 8), (2, 8)][k - 9];
                        want_trns = true;
                    }
                }
            } else {
                // regions the library refuses today (kept so that a change of behaviour is seen)
                (ct, depth) = COMBOS[pick_idx(sel, COMBOS.len())];
                if !(ct == 3 || depth < 8) || il < 60 {
                    interlace = true;
                } else {
                    interlace = false;
                    if depth < 8 && w == 1 {
                        w = 2 + (h % 7);
                    }
                }
            }
        } else {
            (ct, depth) = COMBOS[pick_idx(sel, COMBOS.len())];
        }
        if region % 20 == 7 {
            w = 1;
            h = 1;
        }
        let cap = 1usize << depth.min(8);
        let plte_len = if ct == 3 {
            match pl % 8 {
                0 => 1,
                1 => cap,
                _ => 1 + pick_idx(pl, cap),
            }
        } else if (ct == 2 || ct == 6) && pl % 16 == 3 {
            1 + pick_idx(pl, 256)
        } else {
            0
        };
        Hdr { ct, depth, w, h, interlace, want_trns, plte_len, few: if few < 3 { few + 1 } else { 0 }, writer: wr & 0 /* WriterConfig::modern() output takes seconds to read back (xref); not this property's subject */ }
    })
}

const POOL: usize = 33 * 17 * 4;

/// No flat_map: the header comes first in the tuple so that shrinking reduces the dimensions before it
/// touches the sample pool; samples, palette and palette alpha are prefixes of fixed-size pools.
fn png_strategy(steer: bool) -> impl Strategy<Value = PngCase> {
    let filters = prop_oneof![
        2 => prop::collection::vec(0u8..5, 1..=9),
        1 => (0u8..5).prop_map(|f| vec![f]),
        1 => Just(vec![0u8, 1, 2, 3, 4]),
    ];
    let split = prop_oneof![
        2 => Just(Vec::<u16>::new()),
        2 => prop::collection::vec(0u16..40, 1..4),
        1 => Just(vec![1u16]),
    ];
    (
        hdr_strategy(steer),
        (any::<u16>(), 0u8..8, any::<[u16; 3]>(), any::<u16>()),
        filters,
        split,
        (0u8..=9, any::<bool>()),
        prop::collection::vec(prop_oneof![1 => Just(0u8), 1 => Just(255u8), 2 => any::<u8>()], 256),
        prop::collection::vec(any::<[u8; 3]>(), 256),
        prop::collection::vec(any::<u16>(), POOL),
    )
            .prop_map(|(hd, (keysel, keymode, rndkey, palen), filters, idat_split, (zlevel, ancillary), mut palpha, mut plte, mut raw)| {
                raw.truncate(hd.w as usize * hd.h as usize * refpng::channels(hd.ct));
                plte.truncate(hd.plte_len);
                palpha.truncate(1 + pick_idx(palen, hd.plte_len.max(1)));
                let ch = refpng::channels(hd.ct);
                let max: u16 = if hd.depth == 16 { u16::MAX } else { (1u16 << hd.depth) - 1 };
                let mut samples: Vec<u16> = raw
                    .iter()
                    .enumerate()
                    .map(|(i, &v)| {
                        if hd.ct == 3 {
                            pick_idx(v, hd.plte_len) as u16
                        } else if (hd.ct == 4 || hd.ct == 6) && i % ch == ch - 1 {
                            // alpha: make the extremes frequent
                            if v < 0x2000 {
                                0
                            } else if v > 0xE000 {
                                max
                            } else {
                                v & max
                            }
                        } else {
                            v & max
                        }
                    })
                    .collect();
                if hd.few > 0 {
                    // few-colour image: every pixel is a copy of one of the first `few` pixels
                    let npix = samples.len() / ch;
                    let k = (hd.few as usize).min(npix);
                    for p in k..npix {
                        let src = (raw[p * ch] as usize) % k;
                        for c in 0..ch {
                            samples[p * ch + c] = samples[src * ch + c];
                        }
                    }
                }
                let npix = samples.len() / ch;
                let kp = pick_idx(keysel, npix);
                let trns = if !hd.want_trns {
                    Trns::None
                } else {
                    match hd.ct {
                        3 => Trns::Palette(palpha),
                        0 => {
                            let from_img = samples[kp];
                            Trns::Grey(match keymode {
                                0 | 1 => rndkey[0] & max,
                                2 if hd.depth == 16 => from_img ^ 1,
                                3 if hd.depth == 16 => from_img ^ 0x0100,
                                _ => from_img,
                            })
                        }
                        2 => {
                            let p = &samples[kp * 3..kp * 3 + 3];
                            match keymode {
                                0 | 1 => Trns::Rgb(rndkey[0] & max, rndkey[1] & max, rndkey[2] & max),
                                2 if hd.depth == 16 => Trns::Rgb(p[0], p[1] ^ 1, p[2]),
                                2 => Trns::Rgb(p[0], p[1], p[2] ^ 1), // matches two of three components
                                3 if hd.depth == 16 => Trns::Rgb(p[0] ^ 0x0100, p[1], p[2]),
                                _ => Trns::Rgb(p[0], p[1], p[2]),
                            }
                        }
                        _ => Trns::None,
                    }
                };
                PngCase { spec: PngSpec { w: hd.w, h: hd.h, ct: hd.ct, depth: hd.depth, interlace: hd.interlace, samples, plte, trns, filters, idat_split, zlevel, ancillary }, writer: hd.writer }
            })
}

// ───────────────────────────── sub-check `raw` ─────────────────────────────

#[derive(Clone, Debug, Serialize, Deserialize)]
pub struct RawCase {
    /// 0 from_raw_data(DeviceGray), 1 from_raw_data(DeviceRGB), 2 from_rgba_data, 3 from_gray_data
    pub ctor: u8,
    pub bpc: u8,
    pub w: u32,
    pub h: u32,
    pub data: Vec<u8>,
    pub writer: u8,
}

fn raw_expected_len(c: &RawCase) -> Option<usize> {
    let (w, h) = (c.w as usize, c.h as usize);
    match c.ctor {
        0 => Some(row_bytes(c.w, 1, c.bpc) * h),
        1 => Some(row_bytes(c.w, 3, c.bpc) * h),
        2 => w.checked_mul(h)?.checked_mul(4),
        _ => w.checked_mul(h),
    }
}

pub fn check_raw(c: &RawCase) -> Outcome {
    let mut o = Outcome::new();
    let ctor = ["from_raw_data(gray)", "from_raw_data(rgb)", "from_rgba_data", "from_gray_data"][(c.ctor as usize).min(3)];
    o.label(format!("ctor={ctor}"));
    let Some(expect) = raw_expected_len(c) else { return o };
    let right_len = c.data.len() == expect;
    let huge = (c.w as u64) * (c.h as u64) * if c.ctor == 2 { 4 } else { 1 } > u32::MAX as u64;
    if c.ctor >= 2 && (c.bpc != 8) {
        o.label("illegal-case");
        return o;
    }
    if !right_len || huge {
        // a buffer that does not match the stated dimensions must be refused (both constructors check it)
        if c.ctor < 2 {
            o.label("illegal-case");
            return o;
        }
        let class = if huge { format!("{ctor},size>=2^32") } else { format!("{ctor},wrong-length") };
        o.label(if huge { "dims-overflow" } else { "wrong-length" });
        let r = if c.ctor == 2 { Image::from_rgba_data(c.data.clone(), c.w, c.h) } else { Image::from_gray_data(c.data.clone(), c.w, c.h) };
        o.nontrivial(true);
        if let Ok(img) = r {
            o.fail("C24/raw-size-validated", class, format!("{} bytes accepted as a {}×{} image (needs {}); image reports {}×{} with {} data bytes", c.data.len(), c.w, c.h, expect, img.width(), img.height(), img.data().len()));
        }
        return o;
    }
    o.label(format!("bpc={}", c.bpc));
    o.label_if(c.w == 1 && c.h == 1, "1x1");
    let ncomp = if c.ctor == 1 || c.ctor == 2 { 3 } else { 1 };
    o.label_if(c.ctor < 2 && c.bpc < 8 && (c.w as usize * ncomp * c.bpc as usize) % 8 != 0, "row-not-byte-aligned");
    // reference = the input buffer read by its definition
    let depth = c.bpc;
    let opaque = maxv(depth) as u16;
    let px: Vec<[u16; 4]> = match c.ctor {
        0 | 3 => match unpack(&c.data, c.w, c.h, 1, c.bpc) {
            Ok(v) => v.iter().map(|&g| [g, g, g, opaque]).collect(),
            Err(_) => return o,
        },
        1 => match unpack(&c.data, c.w, c.h, 3, c.bpc) {
            Ok(v) => v.chunks_exact(3).map(|p| [p[0], p[1], p[2], opaque]).collect(),
            Err(_) => return o,
        },
        _ => c.data.chunks_exact(4).map(|p| [p[0] as u16, p[1] as u16, p[2] as u16, p[3] as u16]).collect(),
    };
    let reference = Reference { w: c.w, h: c.h, depth, px };
    let class = if c.ctor < 2 { format!("{ctor},bpc={}", c.bpc) } else { ctor.to_string() };
    let img = match c.ctor {
        0 => Ok(Image::from_raw_data(c.data.clone(), c.w, c.h, ColorSpace::DeviceGray, c.bpc)),
        1 => Ok(Image::from_raw_data(c.data.clone(), c.w, c.h, ColorSpace::DeviceRGB, c.bpc)),
        2 => Image::from_rgba_data(c.data.clone(), c.w, c.h),
        _ => Image::from_gray_data(c.data.clone(), c.w, c.h),
    };
    let img = match img {
        Ok(i) => i,
        Err(e) => {
            // these constructors document no reason to refuse a buffer of the right size
            o.fail("C24/raw-accepted", class, format!("{}×{} buffer of {} bytes refused: {e}", c.w, c.h, c.data.len()));
            return o;
        }
    };
    if (img.width(), img.height()) != (c.w, c.h) {
        o.fail("C24/dimensions-equal-reference", class.clone(), format!("Image reports {}×{}", img.width(), img.height()));
    }
    let compared = pipeline(&mut o, img, &reference, &class, &class, c.writer);
    o.nontrivial(compared);
    o.label_if(compared, "compared");
    o
}

fn raw_strategy() -> impl Strategy<Value = RawCase> {
    let w = prop_oneof![1 => Just(1u32), 8 => 1u32..=33];
    let h = prop_oneof![1 => Just(1u32), 8 => 1u32..=17];
    (0u8..100, any::<u16>(), w, h, 0u8..100, prop::collection::vec(any::<u8>(), 33 * 17 * 6 + 1)).prop_map(|(kind, sel, w, h, bad, mut data)| {
        let ctor = pick_idx(sel, 4) as u8;
        let bpc = if ctor < 2 { [8u8, 8, 8, 1, 2, 4, 16][(kind % 7) as usize] } else { 8 };
        let mut c = RawCase { ctor, bpc, w, h, data: vec![], writer: 0 };
        if ctor >= 2 && bad < 3 {
            // dimensions whose product overflows u32, with the (empty) buffer the wrapped product asks for
            c.w = 65536;
            c.h = if ctor == 2 { [16384u32, 32768, 65536][(kind % 3) as usize] } else { 65536 };
            return c;
        }
        let len = raw_expected_len(&c).unwrap_or(0);
        let len = if ctor >= 2 && bad < 10 {
            // wrong length: one short, one long, one row short, empty
            match kind % 4 {
                0 => len - 1,
                1 => len + 1,
                2 => len.saturating_sub(w as usize),
                _ => 0,
            }
        } else {
            len
        };
        data.truncate(len);
        c.data = data;
        c
    })
}

// ───────────────────────────── run / replay ─────────────────────────────

const KNOWN_REGION_SIGS: [&str; 6] = [
    "C24/colour-equals-reference|depth=16",
    "C24/alpha-equals-reference|depth=16",
    "C24/colour-equals-reference|depth<8,ct=0",
    "C24/image-data-complete|depth<8,ct=3",
    "C24/alpha-equals-reference|tRNS=grey-key",
    "C24/alpha-equals-reference|tRNS=rgb-key",
];

fn run(ctx: &Ctx) {
    let steer = KNOWN_REGION_SIGS.iter().any(|s| ctx.known_sig(s));
    ctx.note(format!("png generator steering around listed findings: {steer}"));
    ctx.run_sub("png", ctx.tier.pick(60_000, 600_000), move || png_strategy(steer), check_png);
    ctx.run_sub("raw", ctx.tier.pick(15_000, 150_000), raw_strategy, check_raw);
    let rejected = ctx.label_count("gate-mismatch");
    if rejected > 0 {
        ctx.note(format!("HARNESS BUG: {rejected} generated PNG files decoded by the png crate to other pixels than intended"));
    }
}

fn replay(ctx: &Ctx, sub: &str, case: &Value) -> Result<Outcome, String> {
    match sub.trim_start_matches("replay:") {
        "png" => ctx.replay_case::<PngCase, _>(case, check_png),
        "raw" => ctx.replay_case::<RawCase, _>(case, check_raw),
        s => Err(format!("unknown sub-check {s}")),
    }
}
