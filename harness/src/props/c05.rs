//! C05 — encryption round-trips for every strength, configuration and password.
use crate::engine::{Ctx, Outcome, PropertyDef};
use crate::props::c03::{strength_name, write_case_with_fields, Enc};
use crate::props::progdoc::{self, Cfg, Prog};
use crate::props::util::canon_lib;
use crate::refpdf;
use oxidize_pdf::encryption::Permissions;
use oxidize_pdf::parser::PdfReader;
use proptest::prelude::*;
use serde::{Deserialize, Serialize};
use serde_json::Value;

pub fn def() -> PropertyDef {
    PropertyDef {
        id: "C05",
        level: "exploration",
        rule: "authoring programs (text, paths, images, annotations, document info; a third of the cases with 1–3 text form fields carrying /V and /DV values) × strength {RC4-40, RC4-128, AES-128, AES-256} × writer configuration (classic / xref stream / object streams × compression) × the eight permission setters × password pairs (empty user, equal, ASCII with delimiters, Latin-1, BMP, astral, length 31/32/33, > 32 bytes). Oracle: a plaintext twin written from the same program; after unlocking with the user and, separately, the owner password the library must report is_encrypted, the same page count, the same decoded page content, the same document info and the same value of every object as the twin (object by object, canonical form), and the permission bits that were set; near-miss passwords must be refused; the encrypted file must not contain the plaintext markers; the independent reader with the reference security handler must decrypt the same file to the twin's page content and info. Non-trivial: non-empty user password or restricted permissions; distinct by hash of the case.",
        assumptions: &[
            "passwords for revisions 2–4 are compared on their first 32 bytes (Algorithm 2 pads/truncates), so near-miss passwords differ within that prefix; for AES-256 within the first 127 bytes",
            "the independent reader tries the password's UTF-8 bytes and, for non-ASCII passwords, its Latin-1/PDFDocEncoding bytes",
            "objects of the twin and of the decrypted file are compared as sorted multisets of canonical values with reference targets blanked (object numbers shift where the /Encrypt dictionary is inserted); cross-reference streams, object streams and the /Encrypt dictionary are left out; dates are fixed by the program",
        ],
        trusted_base: &["refpdf strict reader", "refcrypto standard security handler (validated against the library's primitives by C23 and on qpdf/pypdf fixtures by C06)"],
        run,
        replay,
    }
}

#[derive(Clone, Debug, Serialize, Deserialize)]
pub struct Case {
    pub prog: Prog,
    pub cfg: Cfg,
    pub enc: Enc,
    pub perms: u8,
    /// a raw 32-bit permission word given through `Permissions::from_bits` (reserved bits need not be in
    /// canonical form: 0xFFFFFFFF is the most common /P value of real files); `perms` is ignored then
    #[serde(default)]
    pub raw_perms: Option<u32>,
    /// filled text fields (name, /V, /DV) added to the document before both writings
    #[serde(default)]
    pub fields: Vec<(String, Option<String>, Option<String>)>,
}

pub fn perms_of(bits: u8) -> Permissions {
    let mut p = Permissions::new();
    p.set_print(bits & 1 != 0)
        .set_modify_contents(bits & 2 != 0)
        .set_copy(bits & 4 != 0)
        .set_modify_annotations(bits & 8 != 0)
        .set_fill_forms(bits & 16 != 0)
        .set_accessibility(bits & 32 != 0)
        .set_assemble(bits & 64 != 0)
        .set_print_high_quality(bits & 128 != 0);
    p
}

struct Snap {
    pages: u32,
    contents: Vec<Vec<u8>>,
    info: [Option<String>; 5],
    objects: Vec<(u32, String)>,
    /// some stream carries the writer's /Filter /Crypt marker (see known finding)
    crypt_marked: bool,
}

fn strip_refs(s: &str) -> String {
    // object numbers shift by one where the /Encrypt dictionary is inserted: compare values with
    // reference targets blanked
    let b = s.as_bytes();
    let mut out = String::with_capacity(s.len());
    let mut i = 0;
    while i < b.len() {
        if b[i].is_ascii_digit() && (i == 0 || !b[i - 1].is_ascii_alphanumeric()) {
            let mut j = i;
            while j < b.len() && b[j].is_ascii_digit() {
                j += 1;
            }
            if j < b.len() && b[j] == b' ' {
                let mut k = j + 1;
                while k < b.len() && b[k].is_ascii_digit() {
                    k += 1;
                }
                if k > j + 1 && b[k..].starts_with(b" R") && !b.get(k + 2).map(|c| c.is_ascii_alphanumeric()).unwrap_or(false) {
                    out.push('R');
                    i = k + 2;
                    continue;
                }
            }
        }
        out.push(b[i] as char);
        i += 1;
    }
    out
}

fn snap(rd: PdfReader<std::io::Cursor<Vec<u8>>>, _nums: &[u32]) -> Result<Snap, String> {
    let mut rd = rd;
    let md = rd.metadata().map_err(|e| format!("metadata: {e}"))?;
    let size = rd.trailer().dict().get("Size").and_then(|o| o.as_integer()).unwrap_or(0).clamp(0, 3000) as u32;
    let mut objects = Vec::new();
    let mut crypt_marked = false;
    for n in 1..size {
        let v = match rd.get_object(n, 0) {
            Ok(oxidize_pdf::parser::objects::PdfObject::Null) => continue,
            Ok(o) => {
                let mut v = strip_refs(&canon_lib(o));
                // the /Info entry /oxidize-pdf-features encodes, among others, "encrypted": documented difference
                if let Some(a) = v.find("/oxidize-pdf-features (") {
                    if let Some(b) = v[a..].find(')') {
                        v.replace_range(a..a + b + 1, "/oxidize-pdf-features (*)");
                    }
                }
                v
            }
            Err(e) => format!("ERR {e}"),
        };
        if v.contains("/Type /XRef") || v.contains("/Type /ObjStm") || v.contains("/Filter /Standard") {
            continue;
        }
        let mut v = v;
        // /Length describes the stored (encrypted: IV + padding) bytes, not the decoded data that is compared
        while let Some(a) = v.find("/Length ") {
            let rest = &v[a + 8..];
            let n = rest.bytes().take_while(|c| c.is_ascii_digit()).count();
            if n == 0 {
                break;
            }
            let end = a + 8 + n + if rest[n..].starts_with(' ') { 1 } else { 0 };
            v.replace_range(a..end, "");
        }
        if v.contains("/Filter /Crypt ") {
            crypt_marked = true;
            v = v.replace("/Filter /Crypt ", "");
        }
        objects.push((n, v));
    }
    objects.sort_by(|a, b| a.1.cmp(&b.1));
    let doc = rd.into_document();
    let pages = doc.page_count().map_err(|e| format!("page_count: {e}"))?;
    let mut contents = Vec::new();
    for i in 0..pages {
        let p = doc.get_page(i).map_err(|e| format!("get_page({i}): {e}"))?;
        let streams = doc.get_page_content_streams(&p).map_err(|e| format!("content({i}): {e}"))?;
        contents.push(streams.concat());
    }
    Ok(Snap { pages, contents, info: [md.title, md.author, md.subject, md.keywords, md.creator], objects, crypt_marked })
}

fn effective_len(strength: u8) -> usize {
    if strength % 4 == 3 {
        127
    } else {
        32
    }
}

/// near-miss passwords that differ from both real passwords within the effective prefix
fn near_misses(e: &Enc) -> Vec<String> {
    let lim = effective_len(e.strength);
    let eff = |s: &str| s.as_bytes()[..s.len().min(lim)].to_vec();
    let mut v = Vec::new();
    for base in [&e.user, &e.owner] {
        let chars: Vec<char> = base.chars().collect();
        if !chars.is_empty() {
            v.push(chars[..chars.len() - 1].iter().collect::<String>());
            let mut f = chars.clone();
            f[0] = if f[0].is_lowercase() { f[0].to_ascii_uppercase() } else { 'q' };
            v.push(f.into_iter().collect());
        }
        v.push(format!("x{base}"));
        v.push(format!("{base} "));
    }
    v.push("definitely-wrong".into());
    v.retain(|w| eff(w) != eff(&e.user) && eff(w) != eff(&e.owner));
    v.sort();
    v.dedup();
    v
}

pub fn check(c: &Case) -> Outcome {
    let mut o = Outcome::new();
    let layout = c.cfg.name();
    let sname = strength_name(c.enc.strength);
    let lay0 = layout.split('+').next().unwrap().to_string();
    let class = |what: &str| format!("{what},strength={sname},layout={lay0}");
    o.label(format!("strength={sname}"));
    o.label(format!("layout={layout}"));
    o.label_if(c.enc.user.is_empty(), "user-password-empty");
    o.label_if(c.enc.user == c.enc.owner, "passwords-equal");
    o.label_if(!c.enc.user.is_ascii() || !c.enc.owner.is_ascii(), "password-non-ascii");
    o.label_if(c.enc.user.len() > 32 || c.enc.owner.len() > 32, "password>32-bytes");
    o.nontrivial(!c.enc.user.is_empty() || c.perms != 0xFF);
    let perms = match c.raw_perms {
        Some(raw) => Permissions::from_bits(raw),
        None => perms_of(c.perms),
    };
    o.label_if(c.raw_perms.is_some(), "raw-permission-word");
    o.label_if(!c.fields.is_empty(), "form-fields");
    o.label_if(c.fields.iter().any(|f| f.1.is_some()), "form-field-with-value");
    let twin = match write_case_with_fields(&c.prog, c.cfg, None, None, &c.fields) {
        Ok(b) => b,
        Err(_) => {
            o.label("authoring-refused");
            return o;
        }
    };
    let bytes = match write_case_with_fields(&c.prog, c.cfg, Some(&c.enc), Some(perms), &c.fields) {
        Ok(b) => b,
        Err(e) => {
            o.fail("C05/encrypted-write-succeeds", class("write"), e);
            return o;
        }
    };
    crate::engine::isolate::dump("c05_twin.pdf", &twin);
    crate::engine::isolate::dump("c05_enc.pdf", &bytes);
    // object numbers of the twin (independent reader)
    let twin_rd = match refpdf::Reader::open(&twin, None) {
        Ok(r) => r,
        Err(e) => {
            o.fail("HARNESS/twin-readable", "refpdf", format!("at {}: {}", e.at, e.msg));
            return o;
        }
    };
    let nums: Vec<u32> = twin_rd.object_numbers().into_iter().filter(|n| !matches!(twin_rd.load(*n, 0), Ok(refpdf::Obj::Stream(ref s)) if matches!(s.dict.name(b"Type"), Some(b"XRef") | Some(b"ObjStm")))).collect();
    let base = match PdfReader::new(std::io::Cursor::new(twin.clone())).map_err(|e| e.to_string()).and_then(|r| snap(r, &nums)) {
        Ok(s) => s,
        Err(e) => {
            o.fail("C05/plaintext-twin-readable", class("twin"), e);
            return o;
        }
    };
    // no-plaintext clause: text markers of the program must not be visible in the encrypted file
    // (only meaningful when streams are not compressed; info strings are never compressed)
    for s in [&c.prog.info.title, &c.prog.info.author, &c.prog.info.subject, &c.prog.info.keywords].into_iter().flatten() {
        if s.len() >= 6 && s.is_ascii() && !s.contains(['(', ')', '\\']) {
            if bytes.windows(s.len()).any(|w| w == s.as_bytes()) {
                o.fail("C05/no-plaintext-in-file", class("info-string"), format!("info value {s:?} is readable in the encrypted file"));
            }
        }
    }
    let mut crypt_marked_any = false;
    for (who, pw) in [("user", &c.enc.user), ("owner", &c.enc.owner)] {
        let mut rd = match PdfReader::new(std::io::Cursor::new(bytes.clone())) {
            Ok(r) => r,
            Err(e) => {
                o.fail("C05/encrypted-file-opens", class("open"), format!("{e}"));
                return o;
            }
        };
        if !rd.is_encrypted() {
            o.fail("C05/reports-encrypted", class("is_encrypted=false"), "PdfReader::is_encrypted() is false for an encrypted document".to_string());
            return o;
        }
        match rd.unlock_with_password(pw) {
            Ok(true) => {}
            other => {
                let pclass = if !pw.is_ascii() { "password-non-ascii" } else if pw.len() > 32 { "password>32-bytes" } else if pw.is_empty() { "password-empty" } else { "password-ascii" };
                o.fail("C05/correct-password-unlocks", class(&format!("{who},{pclass}")), format!("unlock_with_password({pw:?}) → {other:?}"));
                continue;
            }
        }
        if let Some(h) = rd.encryption_handler() {
            let got = h.permissions().bits();
            let want = perms.bits();
            // compare the eight user-settable permission bits (3,4,5,6,9,10,11,12)
            let mask: u32 = 0b1111_0011_1100;
            if got & mask != want & mask {
                o.fail("C05/permissions-round-trip", class("bits"), format!("set {:#b}, read {:#b}", want & mask, got & mask));
            }
        }
        match snap(rd, &nums) {
            Err(e) => o.fail("C05/unlocked-document-reads", class(who), e),
            Ok(s) => {
                if s.crypt_marked && !crypt_marked_any {
                    crypt_marked_any = true;
                    o.fail(
                        "C05/stream-dictionaries-unchanged",
                        "filter-crypt-added-to-unfiltered-streams",
                        "encrypted streams that had no /Filter are written with /Filter /Crypt (no /DecodeParms): the twin has no such entry, and for a conforming reader that entry names the Identity crypt filter, i.e. 'not encrypted'".to_string(),
                    );
                }
                if s.pages != base.pages {
                    o.fail("C05/same-as-plaintext", class("page-count"), format!("{who}: {} vs twin {}", s.pages, base.pages));
                }
                if s.info != base.info {
                    o.fail("C05/same-as-plaintext", class("metadata"), format!("{who}: {:?} vs twin {:?}", s.info, base.info));
                }
                if let Some(i) = (0..s.contents.len().min(base.contents.len())).find(|i| s.contents[*i] != base.contents[*i]) {
                    o.fail("C05/same-as-plaintext", class("page-content"), format!("{who}: page {i} content differs from the twin ({} vs {} bytes)", s.contents[i].len(), base.contents[i].len()));
                }
                // multiset difference of canonical object values
                let mut twin_left: Vec<&(u32, String)> = base.objects.iter().collect();
                let mut only_enc: Vec<&(u32, String)> = Vec::new();
                for e in &s.objects {
                    if let Some(i) = twin_left.iter().position(|t| t.1 == e.1) {
                        twin_left.remove(i);
                    } else {
                        only_enc.push(e);
                    }
                }
                if !only_enc.is_empty() || !twin_left.is_empty() {
                    let show = |v: &[&(u32, String)]| v.iter().take(2).map(|x| format!("#{} {}", x.0, crate::engine::trunc(&x.1, 260))).collect::<Vec<_>>().join(" ; ");
                    o.fail("C05/same-as-plaintext", class("object-value"), format!("{who}: only in the decrypted file: [{}] — only in the twin: [{}]", show(&only_enc), show(&twin_left)));
                }
            }
        }
    }
    // wrong passwords
    // (one reader for all attempts: a refused password leaves the reader locked)
    if let Ok(mut rd) = PdfReader::new(std::io::Cursor::new(bytes.clone())) {
        for w in near_misses(&c.enc) {
            if let Ok(true) = rd.unlock_with_password(&w) {
                o.fail("C05/wrong-password-refused", class("near-miss"), format!("password {w:?} unlocked a document with user {:?} / owner {:?}", c.enc.user, c.enc.owner));
                break;
            }
        }
    }
    // independent implementation decrypts the library's output (C06 outbound)
    let mut cands: Vec<Vec<u8>> = vec![c.enc.user.as_bytes().to_vec()];
    if !c.enc.user.is_ascii() {
        if let Some(l1) = c.enc.user.chars().map(|ch| if (ch as u32) < 256 { Some(ch as u8) } else { None }).collect::<Option<Vec<u8>>>() {
            cands.push(l1);
        }
    }
    let mut opened = None;
    let mut last_err = String::new();
    for pw in &cands {
        match refpdf::Reader::open(&bytes, Some(pw)) {
            Ok(r) => {
                opened = Some(r);
                break;
            }
            Err(e) => last_err = format!("at {}: {}", e.at, e.msg),
        }
    }
    match opened {
        None => {
            let pclass = if !c.enc.user.is_ascii() { "password-non-ascii" } else if c.enc.user.len() > 32 { "password>32-bytes" } else { "password-ascii" };
            o.fail("C05/independent-reader-decrypts", class(pclass), last_err)
        }
        Some(ird) => {
            match (ird.pages(), twin_rd.pages()) {
                (Ok(a), Ok(b)) => {
                    if a.len() != b.len() {
                        o.fail("C05/independent-reader-decrypts", class("page-count"), format!("{} vs twin {}", a.len(), b.len()));
                    }
                    for (i, (pa, pb)) in a.iter().zip(&b).enumerate() {
                        match (ird.page_content(pa), twin_rd.page_content(pb)) {
                            (Ok(x), Ok(y)) if x == y => {}
                            (x, y) => {
                                // a stream marked /Filter /Crypt without parameters is, for a conforming reader, not encrypted
                                let cls = if crypt_marked_any || bytes.windows(14).any(|w| w == b"/Filter /Crypt\n") { "filter-crypt-added-to-unfiltered-streams".to_string() } else { class("page-content") };
                                o.fail("C05/independent-reader-decrypts", cls, format!("page {i}: {:?} vs twin {:?}", x.map(|v| v.len()), y.map(|v| v.len())));
                                break;
                            }
                        }
                    }
                }
                (a, b) => o.fail("C05/independent-reader-decrypts", class("pages"), format!("{:?} / twin {:?}", a.err(), b.err())),
            }
            let pick = |d: Result<Option<refpdf::Dict>, refpdf::PErr>| -> Result<Vec<(String, Option<refpdf::Obj>)>, String> {
                let d = d.map_err(|e| e.msg)?.unwrap_or_default();
                Ok(["Title", "Author", "Subject", "Keywords", "Creator", "Producer", "CreationDate", "ModDate"].iter().map(|k| (k.to_string(), d.get(k.as_bytes()).cloned())).collect())
            };
            match (pick(ird.info()), pick(twin_rd.info())) {
                (Ok(a), Ok(b)) if a == b => {}
                (a, b) => o.fail("C05/independent-reader-decrypts", class("info"), format!("{a:?} vs twin {b:?}")),
            }
        }
    }
    o
}

pub fn password() -> impl Strategy<Value = String> {
    prop_oneof![
        3 => "[A-Za-z0-9]{1,12}",
        1 => Just(String::new()),
        2 => "[ -~]{1,20}",
        1 => "[a-zéèüñß]{1,10}",
        1 => "[a-z中日本\u{1F600}]{1,8}",
        1 => "[a-z]{31,34}",
        1 => "[a-z0-9]{35,60}",
    ]
}

fn strategy() -> impl Strategy<Value = Case> {
    (progdoc::prog(), progdoc::cfg_light(), 0u8..4, password(), password(), prop::bool::weighted(0.2), prop_oneof![Just(0xFFu8), any::<u8>()], prop::option::weighted(0.25, prop_oneof![Just(0xFFFF_FFFFu32), Just(0x0000_0F3Cu32), Just(0u32), any::<u32>()]), prop_oneof![2 => Just(Vec::new()), 1 => prop::collection::vec(("[a-z]{1,6}", prop::option::weighted(0.8, "[ -~]{1,12}|[a-zé中]{1,6}"), prop::option::weighted(0.3, "[a-z ]{1,8}")), 1..4)]).prop_map(|(prog, cfg, strength, user, owner, same, perms, raw_perms, mut fields)| {
        let owner = if same { user.clone() } else { owner };
        // field names must be distinct
        for (i, f) in fields.iter_mut().enumerate() {
            f.0 = format!("{}{i}", f.0);
        }
        Case { prog, cfg, enc: Enc { strength, user, owner }, perms, raw_perms, fields }
    })
}

fn run(ctx: &Ctx) {
    ctx.set_shrink_budget(250);
    ctx.run_sub("roundtrip", ctx.tier.pick(400, 10_000), strategy, check);
}

fn replay(ctx: &Ctx, sub: &str, case: &Value) -> Result<Outcome, String> {
    match sub.trim_start_matches("replay:") {
        "roundtrip" => ctx.replay_case::<Case, _>(case, check),
        s => Err(format!("unknown sub-check {s}")),
    }
}
