//! C29 — the object cache behaves as a bounded least-recently-used map.
//! Sequential part: small-scope exhaustive enumeration of histories against an abstract LRU model,
//! plus long random histories. Concurrent part: real threads with linearizability checking
//! (schedules chosen by the OS; see level_note) — every recorded concurrent history must be
//! linearizable w.r.t. the model.
use crate::engine::{par_chunks, Ctx, Outcome, PropertyDef};
use oxidize_pdf::memory::{LruCache, ObjectCache};
use oxidize_pdf::parser::objects::PdfObject;
use proptest::prelude::*;
use serde::{Deserialize, Serialize};
use serde_json::{json, Value};
use std::sync::Arc;

pub fn def() -> PropertyDef {
    PropertyDef {
        id: "C29",
        level: "exploration",
        rule: "sub `exhaustive`: ALL histories of length ≤ L (quick 6, thorough 7) over the 11-letter alphabet {get k, put k v0, put k v1 (k∈3 keys), clear, len} for each capacity 0–4, run on LruCache and on ObjectCache, compared step by step and by a final residency probe with an abstract ordered-list LRU model; sub `random`: proptest histories ≤ 200 ops over 6 keys, capacity ≤ 8; sub `concurrent`: 2–3 real threads × ≤ 4 ops on ObjectCache, recorded invocation/response intervals checked for linearizability (Wing–Gong search) against the model; sub `contention`: free-running threads, then a quiescent probe; sub `shuttle-schedules`: memory/cache.rs rebuilt from the working tree on shuttle primitives, all interleavings (depth-first, capped) of 2 threads × ≤ 3 ops and 3 threads × ≤ 2 ops plus random/PCT schedules of ≤ 3 threads × ≤ 4 ops, each history extended by a quiescent probe and checked for linearizability. Non-trivial: the history evicts at least once (sequential) / has overlapping operations of different threads (concurrent); distinct by history.",
        assumptions: &[
            "abstract model: ordered list, get and put move the key to most-recent, put on a full cache evicts the least-recent, capacity 0 stores nothing",
            "sub-checks concurrent and contention run on OS threads: only the interleavings the scheduler offers are explored there; the controlled-schedule half is sub-check shuttle-schedules, which runs the library's cache source compiled against shuttle's RwLock/Mutex/atomics (interleavings at the granularity of synchronisation operations)",
        ],
        trusted_base: &["harness LRU model (30 lines)", "harness linearizability checker (exhaustive search over ≤ 12 operations)"],
        run,
        replay,
    }
}

#[derive(Clone, Copy, Debug, PartialEq, Eq, Serialize, Deserialize)]
pub enum Op {
    Get(u8),
    Put(u8, u8),
    Clear,
    Len,
}

#[derive(Clone, Debug, Serialize, Deserialize)]
pub struct Case {
    pub capacity: usize,
    pub ops: Vec<Op>,
}

/// Abstract LRU: front = most recently used.
#[derive(Clone, Debug, Default, PartialEq, Eq, Hash)]
pub struct Model {
    cap: usize,
    order: Vec<(u8, u8)>,
}

#[derive(Clone, Copy, Debug, PartialEq, Eq)]
pub enum Res {
    Got(Option<u8>),
    Unit,
    Len(usize),
}

impl Model {
    pub fn new(cap: usize) -> Self {
        Model { cap, order: Vec::new() }
    }
    pub fn apply(&mut self, op: Op) -> (Res, bool) {
        match op {
            Op::Get(k) => {
                if let Some(i) = self.order.iter().position(|e| e.0 == k) {
                    let e = self.order.remove(i);
                    self.order.insert(0, e);
                    (Res::Got(Some(e.1)), false)
                } else {
                    (Res::Got(None), false)
                }
            }
            Op::Put(k, v) => {
                if self.cap == 0 {
                    return (Res::Unit, false);
                }
                let mut evicted = false;
                if let Some(i) = self.order.iter().position(|e| e.0 == k) {
                    self.order.remove(i);
                } else if self.order.len() >= self.cap {
                    self.order.pop();
                    evicted = true;
                }
                self.order.insert(0, (k, v));
                (Res::Unit, evicted)
            }
            Op::Clear => {
                self.order.clear();
                (Res::Unit, false)
            }
            Op::Len => (Res::Len(self.order.len()), false),
        }
    }
}

fn oid(k: u8) -> oxidize_pdf::objects::ObjectId {
    oxidize_pdf::objects::ObjectId::new(k as u32 + 1, 0)
}

trait Sut {
    fn apply(&mut self, op: Op) -> Res;
}

struct SutLru(LruCache<u8, u8>);
impl Sut for SutLru {
    fn apply(&mut self, op: Op) -> Res {
        match op {
            Op::Get(k) => Res::Got(self.0.get(&k).copied()),
            Op::Put(k, v) => {
                self.0.put(k, v);
                Res::Unit
            }
            Op::Clear => {
                self.0.clear();
                Res::Unit
            }
            Op::Len => Res::Len(self.0.len()),
        }
    }
}

struct SutObj(ObjectCache, [Arc<PdfObject>; 2]);
impl SutObj {
    fn new(cap: usize) -> Self {
        SutObj(ObjectCache::new(cap), [Arc::new(PdfObject::Integer(0)), Arc::new(PdfObject::Integer(1))])
    }
}
fn val_of(o: &PdfObject) -> u8 {
    match o {
        PdfObject::Integer(i) => *i as u8,
        _ => 255,
    }
}
impl Sut for SutObj {
    fn apply(&mut self, op: Op) -> Res {
        match op {
            Op::Get(k) => Res::Got(self.0.get(&oid(k)).map(|a| val_of(&a))),
            Op::Put(k, v) => {
                self.0.put(oid(k), self.1[(v & 1) as usize].clone());
                Res::Unit
            }
            Op::Clear => {
                self.0.clear();
                Res::Unit
            }
            Op::Len => Res::Len(self.0.stats().size),
        }
    }
}

/// Runs a history on a system under test against the model; returns the first divergence.
fn run_history(sut: &mut dyn Sut, cap: usize, ops: &[Op], keys: u8) -> (Option<(String, String)>, bool) {
    let mut m = Model::new(cap);
    let mut evicted = false;
    for (i, op) in ops.iter().enumerate() {
        let (exp, ev) = m.apply(*op);
        evicted |= ev;
        let got = sut.apply(*op);
        if got != exp {
            let clause = match op {
                Op::Get(_) => "C29/get-returns-latest-unless-evicted",
                Op::Len => "C29/len-equals-model",
                _ => "C29/op-result",
            };
            return (Some((clause.into(), format!("step {i} {op:?}: expected {exp:?}, got {got:?}"))), evicted);
        }
        if let Res::Len(l) = sut.apply(Op::Len) {
            if l > cap {
                return (Some(("C29/never-more-than-capacity".into(), format!("after step {i}: len {l} > capacity {cap}"))), evicted);
            }
        }
    }
    // residency probe: for each key in fixed order, a get must agree with the model (the model is
    // updated by the probe too, so recency side effects of the probe are accounted for)
    for k in 0..keys {
        let (exp, _) = m.apply(Op::Get(k));
        let got = sut.apply(Op::Get(k));
        if got != exp {
            return (Some(("C29/evicts-least-recently-used".into(), format!("residency probe key {k}: expected {exp:?}, got {got:?}"))), evicted);
        }
    }
    (None, evicted)
}

pub fn check(c: &Case) -> Outcome {
    let mut o = Outcome::new();
    let keys = c.ops.iter().map(|op| match op {
        Op::Get(k) | Op::Put(k, _) => *k + 1,
        _ => 0,
    }).max().unwrap_or(0).max(3);
    let (r1, ev) = run_history(&mut SutLru(LruCache::new(c.capacity)), c.capacity, &c.ops, keys);
    o.nontrivial(ev);
    o.label_if(ev, "evicts");
    o.label(format!("capacity={}", c.capacity.min(9)));
    if let Some((clause, d)) = r1 {
        o.fail(&clause, "LruCache", d);
    }
    let (r2, _) = run_history(&mut SutObj::new(c.capacity), c.capacity, &c.ops, keys);
    if let Some((clause, d)) = r2 {
        o.fail(&clause, "ObjectCache", d);
    }
    o
}

const ALPHABET: [Op; 11] = [
    Op::Get(0), Op::Get(1), Op::Get(2), Op::Put(0, 0), Op::Put(0, 1), Op::Put(1, 0), Op::Put(1, 1), Op::Put(2, 0), Op::Put(2, 1), Op::Clear, Op::Len,
];

fn decode_history(mut idx: u64, len: usize) -> Vec<Op> {
    let mut v = Vec::with_capacity(len);
    for _ in 0..len {
        v.push(ALPHABET[(idx % 11) as usize]);
        idx /= 11;
    }
    v
}

fn exhaustive(ctx: &Ctx) {
    let maxlen = match ctx.tier {
        crate::engine::Tier::Quick => 6,
        crate::engine::Tier::Thorough => 7,
    };
    use std::sync::atomic::{AtomicU64, Ordering};
    let total = AtomicU64::new(0);
    let nontrivial = AtomicU64::new(0);
    let failed: std::sync::Mutex<Vec<(Case, Outcome)>> = std::sync::Mutex::new(Vec::new());
    for cap in 0..=4usize {
        for len in 1..=maxlen {
            let n = 11u64.pow(len as u32) as usize;
            par_chunks(n, |lo, hi| {
                let mut t = 0u64;
                let mut nt = 0u64;
                for idx in lo..hi {
                    let ops = decode_history(idx as u64, len);
                    // cheap path: LruCache only on the full space; ObjectCache on every 7th history
                    // (it wraps the same LruCache behind a lock; full cross-product in `random`)
                    let (r, ev) = run_history(&mut SutLru(LruCache::new(cap)), cap, &ops, 3);
                    t += 1;
                    if ev {
                        nt += 1;
                    }
                    let r2 = if idx % 7 == 0 { run_history(&mut SutObj::new(cap), cap, &ops, 3).0 } else { None };
                    if r.is_some() || r2.is_some() {
                        let c = Case { capacity: cap, ops };
                        let o = check(&c);
                        let mut f = failed.lock().unwrap();
                        if f.len() < 50 {
                            f.push((c, o));
                        }
                    }
                }
                total.fetch_add(t, Ordering::Relaxed);
                nontrivial.fetch_add(nt, Ordering::Relaxed);
            });
        }
    }
    // record aggregated counts through the engine: one representative record per (cap) plus bulk counters
    let t = total.load(Ordering::Relaxed);
    let nt = nontrivial.load(Ordering::Relaxed);
    ctx.extra("exhaustive_histories", json!({"alphabet": 11, "max_len": maxlen, "capacities": "0..=4", "histories": t, "with_eviction": nt}));
    ctx.bulk("exhaustive", t, nt, json!({"capacity": 2, "ops": decode_history(123456, 6)}));
    // smallest failing first
    let mut f = failed.into_inner().unwrap();
    f.sort_by_key(|(c, _)| (c.ops.len(), c.capacity));
    let mut seen = std::collections::BTreeSet::new();
    for (c, o) in f {
        let key = crate::engine::hash64(serde_json::to_vec(&c).unwrap().as_slice());
        let unknown = ctx.record("exhaustive", key, &o, || serde_json::to_value(&c).unwrap());
        for fl in unknown {
            if seen.insert(fl.signature()) {
                ctx.violation("exhaustive", &fl, serde_json::to_value(&c).unwrap(), &o.fails);
            }
        }
    }
    ctx.set_exhaustive(true);
}

fn op_strategy(keys: u8) -> impl Strategy<Value = Op> {
    prop_oneof![
        4 => (0..keys).prop_map(Op::Get),
        5 => (0..keys, 0u8..2).prop_map(|(k, v)| Op::Put(k, v)),
        1 => Just(Op::Len),
        1 => Just(Op::Clear),
    ]
}

// ---------------------------------------------------------------- concurrent part

#[derive(Clone, Debug, Serialize, Deserialize)]
pub struct ConcCase {
    pub capacity: usize,
    pub threads: Vec<Vec<(Op, u8)>>, // op, number of yields before it
}

#[derive(Clone, Debug)]
struct Event {
    op: Op,
    res: Res,
    start: u64,
    end: u64,
}

/// Wing–Gong linearizability search: is there a total order consistent with real-time order whose
/// sequential execution on the model yields the observed results?
fn linearizable(cap: usize, evs: &[Event]) -> bool {
    fn go(m: &Model, evs: &[Event], done: u32, memo: &mut std::collections::HashSet<(u32, Model)>) -> bool {
        if done.count_ones() as usize == evs.len() {
            return true;
        }
        if !memo.insert((done, m.clone())) {
            return false;
        }
        // candidates: not done, and no other not-done event ended before it started
        for i in 0..evs.len() {
            if done & (1 << i) != 0 {
                continue;
            }
            let minimal = (0..evs.len()).all(|j| j == i || done & (1 << j) != 0 || !(evs[j].end < evs[i].start));
            if !minimal {
                continue;
            }
            let mut m2 = m.clone();
            let (r, _) = m2.apply(evs[i].op);
            if r == evs[i].res && go(&m2, evs, done | (1 << i), memo) {
                return true;
            }
        }
        false
    }
    let mut memo = std::collections::HashSet::new();
    go(&Model::new(cap), evs, 0, &mut memo)
}

pub fn check_conc(c: &ConcCase) -> Outcome {
    use std::sync::atomic::{AtomicU64, Ordering};
    let mut o = Outcome::new();
    let cache = Arc::new(ObjectCache::new(c.capacity));
    let vals = [Arc::new(PdfObject::Integer(0)), Arc::new(PdfObject::Integer(1))];
    let clock = Arc::new(AtomicU64::new(0));
    let barrier = Arc::new(std::sync::Barrier::new(c.threads.len()));
    let mut handles = Vec::new();
    for t in &c.threads {
        let (cache, clock, barrier, t, vals) = (cache.clone(), clock.clone(), barrier.clone(), t.clone(), vals.clone());
        handles.push(std::thread::spawn(move || {
            let mut evs = Vec::new();
            barrier.wait();
            for (op, yields) in t {
                for _ in 0..yields {
                    std::thread::yield_now();
                }
                let start = clock.fetch_add(1, Ordering::SeqCst);
                let res = match op {
                    Op::Get(k) => Res::Got(cache.get(&oid(k)).map(|a| val_of(&a))),
                    Op::Put(k, v) => {
                        cache.put(oid(k), vals[(v & 1) as usize].clone());
                        Res::Unit
                    }
                    Op::Clear => {
                        cache.clear();
                        Res::Unit
                    }
                    Op::Len => Res::Len(cache.stats().size),
                };
                let end = clock.fetch_add(1, Ordering::SeqCst);
                evs.push(Event { op, res, start, end });
            }
            evs
        }));
    }
    let mut all = Vec::new();
    for h in handles {
        match h.join() {
            Ok(e) => all.extend(e),
            Err(_) => {
                o.fail("C29/no-panic", "concurrent", "a cache thread panicked");
                return o;
            }
        }
    }
    let overlapping = all.iter().enumerate().any(|(i, a)| all.iter().enumerate().any(|(j, b)| i != j && a.start < b.end && b.start < a.end));
    o.nontrivial(c.threads.len() >= 2 && all.len() >= 3);
    o.label_if(overlapping, "overlapping-ops");
    o.label(format!("threads={}", c.threads.len()));
    for e in &all {
        if let Res::Len(l) = e.res {
            if l > c.capacity {
                o.fail("C29/never-more-than-capacity", "ObjectCache,concurrent", format!("stats().size {l} > capacity {}", c.capacity));
            }
        }
    }
    if !linearizable(c.capacity, &all) {
        o.fail("C29/concurrent-history-linearizable", "ObjectCache", format!("no linearization of {all:?}"));
    }
    o
}

// ---------------------------------------------------------------- contention part

/// Free-running contention: `threads` threads hammer a tiny key space for `iters` operations each (operation
/// streams derived from `seed`), then the quiescent cache is probed. Checked: no observed size above the capacity,
/// and after `capacity + 2` further puts of fresh keys the size is still within the capacity and the newest key is
/// resident — a recency entry left behind by a racing get/put (a key in the queue that is not in the map) shows
/// up here, because its eviction removes nothing.
#[derive(Clone, Debug, Serialize, Deserialize)]
pub struct StressCase {
    pub capacity: usize,
    pub threads: u8,
    pub iters: u32,
    pub keys: u8,
    pub seed: u64,
}

pub fn check_stress(c: &StressCase) -> Outcome {
    use std::sync::atomic::{AtomicUsize, Ordering};
    let mut o = Outcome::new();
    let cache = Arc::new(ObjectCache::new(c.capacity));
    let vals = [Arc::new(PdfObject::Integer(0)), Arc::new(PdfObject::Integer(1))];
    let over = Arc::new(AtomicUsize::new(0));
    let n = c.threads.clamp(2, 4) as usize;
    let barrier = Arc::new(std::sync::Barrier::new(n));
    let mut handles = Vec::new();
    for t in 0..n {
        let (cache, vals, over, barrier, c) = (cache.clone(), vals.clone(), over.clone(), barrier.clone(), c.clone());
        handles.push(std::thread::spawn(move || {
            let mut x = c.seed ^ (t as u64 + 1).wrapping_mul(0x9E37_79B9_7F4A_7C15) | 1;
            barrier.wait();
            for _ in 0..c.iters {
                x ^= x << 13;
                x ^= x >> 7;
                x ^= x << 17;
                let k = ((x >> 8) % c.keys.max(1) as u64) as u8;
                match (x >> 40) % 20 {
                    0 => {
                        let l = cache.stats().size;
                        if l > c.capacity {
                            over.fetch_max(l, Ordering::SeqCst);
                        }
                    }
                    // thread 0 mostly writes, the others mostly read (a reader's hit racing with an eviction)
                    r if (t == 0) == (r < 15) => cache.put(oid(k), vals[(x & 1) as usize].clone()),
                    _ => {
                        let _ = cache.get(&oid(k));
                    }
                }
            }
        }));
    }
    for h in handles {
        if h.join().is_err() {
            o.fail("C29/no-panic", "contention", "a cache thread panicked");
            return o;
        }
    }
    o.nontrivial(true);
    o.label(format!("threads={n}"));
    let seen = over.load(Ordering::SeqCst);
    if seen > c.capacity {
        o.fail("C29/never-more-than-capacity", "ObjectCache,contention", format!("stats().size {seen} > capacity {} while threads were running", c.capacity));
    }
    // quiescent probe
    for j in 0..(c.capacity + 2) {
        cache.put(oid(100 + j as u8), vals[0].clone());
    }
    let size = cache.stats().size;
    if size > c.capacity {
        o.fail("C29/never-more-than-capacity", "ObjectCache,after-contention", format!("after {} further puts of fresh keys stats().size is {size} > capacity {}", c.capacity + 2, c.capacity));
    }
    if c.capacity > 0 && cache.get(&oid(100 + (c.capacity + 1) as u8)).is_none() {
        o.fail("C29/get-returns-latest-unless-evicted", "ObjectCache,after-contention", "the key put last into the quiescent cache is not resident".to_string());
    }
    o
}

fn run(ctx: &Ctx) {
    exhaustive(ctx);
    let random = || (0usize..9, prop::collection::vec(op_strategy(6), 1..200)).prop_map(|(capacity, ops)| Case { capacity, ops });
    ctx.run_sub("random", ctx.tier.pick(20_000, 400_000), random, check);
    let conc = || (0usize..4, prop::collection::vec(prop::collection::vec((op_strategy(3), 0u8..3), 1..5), 2..4)).prop_map(|(capacity, threads)| ConcCase { capacity, threads });
    ctx.run_sub("concurrent", ctx.tier.pick(3_000, 60_000), conc, check_conc);
    let stress = || (1usize..4, 2u8..5, 2_000u32..6_000, any::<u64>()).prop_flat_map(|(capacity, threads, iters, seed)| ((capacity as u8 + 1)..(capacity as u8 + 4)).prop_map(move |keys| StressCase { capacity, threads, iters, keys, seed }));
    ctx.run_sub("contention", ctx.tier.pick(400, 8_000), stress, check_stress);
    shuttle_part(ctx);
}

// ---------------------------------------------------------------- controlled schedules (shuttle)

/// `harness-shuttle` (binary vp-shuttle-c29, built by `/verif/check` for C29) compiles memory/cache.rs from the
/// working tree on shuttle's primitives and enumerates the interleavings of small generated cases depth-first
/// (plus random and PCT schedules); every execution's history, extended by a quiescent probe, is checked for
/// linearizability against the same LRU model. This is the part of the schedule quantifier the OS scheduler cannot give.
fn run_shuttle(ctx: &Ctx, tier: &str, seed: u64) -> Result<Value, String> {
    let bin = ctx.verif_dir.join(".build-shuttle").join("debug").join("vp-shuttle-c29");
    if !bin.exists() {
        return Err(format!("{} not built", bin.display()));
    }
    let out = std::process::Command::new(&bin).arg(tier).env("VERIF_SEED", seed.to_string()).output().map_err(|e| format!("cannot run {}: {e}", bin.display()))?;
    let text = String::from_utf8_lossy(&out.stdout);
    let line = text.lines().rev().find_map(|l| l.strip_prefix("JSON ")).ok_or_else(|| format!("no result line from vp-shuttle-c29 (status {:?})", out.status))?;
    let v: Value = serde_json::from_str(line).map_err(|e| format!("bad result line from vp-shuttle-c29: {e}"))?;
    if v["ran"].as_bool() != Some(true) {
        return Err(format!("memory/cache.rs could not be rebuilt on shuttle primitives: {}", v["why"].as_str().unwrap_or("?")));
    }
    Ok(v)
}

fn shuttle_outcomes(res: &Value) -> Vec<Outcome> {
    res["found"]
        .as_array()
        .map(|a| {
            a.iter()
                .map(|f| {
                    let sig = f["sig"].as_str().unwrap_or("C29/shuttle|unknown");
                    let (clause, class) = sig.split_once('|').unwrap_or((sig, ""));
                    let mut o = Outcome::new();
                    o.nontrivial(true);
                    o.fail(clause, class, format!("{} schedules: {}", f["n"], f["detail"].as_str().unwrap_or("")));
                    o
                })
                .collect()
        })
        .unwrap_or_default()
}

fn shuttle_part(ctx: &Ctx) {
    let tier = ctx.tier.name();
    match run_shuttle(ctx, tier, ctx.seed) {
        Err(e) => {
            ctx.note(format!("schedule part (shuttle) could not run: {e}; the concurrent clause was decided on real threads only"));
            ctx.extra("shuttle", serde_json::json!({"ran": false, "why": e}));
        }
        Ok(res) => {
            let n = res["random_pct"].as_u64().unwrap_or(0) + res["dfs"].as_u64().unwrap_or(0);
            // distinct: counted conservatively as the number of generated cases (schedules of one case are distinct under
            // depth-first enumeration, but random and PCT schedules may repeat)
            let distinct = res["dfs_cases"].as_u64().unwrap_or(0) + res["random_cases"].as_u64().unwrap_or(0);
            ctx.bulk("shuttle-schedules", n, distinct, serde_json::json!({"dfs_cases": res["dfs_cases"], "dfs_cases_enumerated_completely": res["dfs_complete"], "dfs_schedules": res["dfs"], "two_thread_cases": res["two_thread_cases"], "three_thread_cases": res["three_thread_cases"], "random_cases": res["random_cases"], "random_pct_schedules": res["random_pct"]}));
            ctx.extra("shuttle", serde_json::json!({"ran": true, "result": res}));
            for (i, o) in shuttle_outcomes(&res).into_iter().enumerate() {
                let case = serde_json::json!({"seed": ctx.seed, "tier": tier, "signature": o.fails[0].signature()});
                let unknown = ctx.record("shuttle-schedules", crate::engine::hash64(format!("shuttle{i}{}", o.fails[0].signature()).as_bytes()), &o, || case.clone());
                if let Some(f) = unknown.first() {
                    ctx.violation("shuttle-schedules", f, case, &o.fails);
                }
            }
        }
    }
}

fn replay(ctx: &Ctx, sub: &str, case: &Value) -> Result<Outcome, String> {
    match sub.trim_start_matches("replay:") {
        "exhaustive" | "random" => ctx.replay_case::<Case, _>(case, check),
        "concurrent" => ctx.replay_case::<ConcCase, _>(case, check_conc),
        "contention" => ctx.replay_case::<StressCase, _>(case, check_stress),
        "shuttle-schedules" => {
            // a schedule finding is reproduced by re-running the campaign it came from (same seed and tier)
            let res = run_shuttle(ctx, case["tier"].as_str().unwrap_or("quick"), case["seed"].as_u64().unwrap_or(0))?;
            let want = case["signature"].as_str().unwrap_or("");
            let mut out = Outcome::new();
            out.nontrivial(true);
            for o in shuttle_outcomes(&res) {
                if want.is_empty() || o.fails[0].signature() == want {
                    out.fails.extend(o.fails);
                }
            }
            Ok(out)
        }
        s => Err(format!("unknown sub-check {s}")),
    }
}
