//! C09 — serialized objects parse back to the same value (library parser and independent reader).
use crate::engine::{Ctx, Outcome, PropertyDef};
use crate::refpdf::{self, Obj};
use oxidize_pdf::objects::{Dictionary, Object, ObjectId};
use oxidize_pdf::parser::lexer::Lexer;
use oxidize_pdf::parser::objects::PdfObject;
use proptest::prelude::*;
use serde::{Deserialize, Serialize};
use serde_json::Value;

pub fn def() -> PropertyDef {
    PropertyDef {
        id: "C09",
        level: "exploration",
        rule: "object trees (depth ≤ 5, ≤ ~60 nodes) over null, booleans, integers incl. i64 extremes, finite reals |x| ≤ 3.4e38 incl. subnormal/−0.0/1e-7, Object::String with arbitrary Unicode incl. ()\\ CR LF, ByteString with arbitrary bytes, names over all Unicode scalars except NUL (incl. space # and delimiters), arrays, dictionaries, references, top-level streams; each serialized through the writer's own serializers (hook H1) as a direct object and as an object-stream member; read back by PdfObject::parse and by the independent strict lexer. Non-trivial: the tree contains a string or name with a byte outside [A-Za-z0-9]; distinct by hash of the tree.",
        assumptions: &[
            "real tolerance: |written − read| ≤ 5e-7 + 2e-7·|x| (writer prints {:.6}; the library parser may hold reals with f32 precision); a real may read back as an integer of the same value",
            "reals are bounded by the Annex C implementation limit 3.4e38; non-finite reals are outside the stated domain",
            "names are compared as the UTF-8 bytes of the authored string after #xx decoding; strings as the authored bytes",
        ],
        trusted_base: &["refpdf strict lexer (ISO 32000-1 §7.3)", "hook H1 exposes write_object_value / write_object_value_to_buffer unchanged"],
        run,
        replay,
    }
}

#[derive(Clone, Debug, Serialize, Deserialize, PartialEq)]
pub enum T {
    Null,
    Bool(bool),
    Int(i64),
    Real(f64),
    Str(String),
    Bytes(Vec<u8>),
    Name(String),
    Arr(Vec<T>),
    Dict(Vec<(String, T)>),
    Ref(u32, u16),
}

#[derive(Clone, Debug, Serialize, Deserialize)]
pub struct Case {
    pub tree: T,
    /// Some((extra dict entries, data)) → emitted as a top-level stream (direct mode only)
    pub stream: Option<Vec<u8>>,
}

fn to_lib(t: &T) -> Object {
    match t {
        T::Null => Object::Null,
        T::Bool(b) => Object::Boolean(*b),
        T::Int(i) => Object::Integer(*i),
        T::Real(r) => Object::Real(*r),
        T::Str(s) => Object::String(s.clone()),
        T::Bytes(b) => Object::ByteString(b.clone()),
        T::Name(n) => Object::Name(n.clone()),
        T::Arr(a) => Object::Array(a.iter().map(to_lib).collect()),
        T::Dict(d) => {
            let mut dict = Dictionary::new();
            for (k, v) in d {
                dict.set(k.clone(), to_lib(v));
            }
            Object::Dictionary(dict)
        }
        T::Ref(n, g) => Object::Reference(ObjectId::new(*n, *g)),
    }
}

fn to_pdfobj(t: &T) -> PdfObject {
    use oxidize_pdf::parser::objects::{PdfArray, PdfDictionary, PdfName, PdfString};
    match t {
        T::Null => PdfObject::Null,
        T::Bool(b) => PdfObject::Boolean(*b),
        T::Int(i) => PdfObject::Integer(*i),
        T::Real(r) => PdfObject::Real(*r),
        T::Str(s) => PdfObject::String(PdfString(s.as_bytes().to_vec())),
        T::Bytes(b) => PdfObject::String(PdfString(b.clone())),
        T::Name(n) => PdfObject::Name(PdfName(n.clone())),
        T::Arr(a) => PdfObject::Array(PdfArray(a.iter().map(to_pdfobj).collect())),
        T::Dict(d) => {
            let mut dict = PdfDictionary::new();
            for (k, v) in d {
                dict.0.insert(PdfName(k.clone()), to_pdfobj(v));
            }
            PdfObject::Dictionary(dict)
        }
        T::Ref(n, g) => PdfObject::Reference(*n, *g),
    }
}

fn real_close(a: f64, b: f64, lib: bool) -> bool {
    let tol = 5e-7 + if lib { 2e-7 } else { 1e-14 } * a.abs();
    (a - b).abs() <= tol
}

#[derive(Debug)]
struct Diff {
    path: String,
    kind: &'static str, // name | string | real | int | structure
    detail: String,
}

fn hostile_name(n: &str) -> Option<&'static str> {
    let b = n.as_bytes();
    if b.iter().any(|c| refpdf::is_ws(*c) || refpdf::is_delim(*c)) {
        Some("name-has-delimiter-or-whitespace")
    } else if b.contains(&b'#') {
        Some("name-has-#")
    } else {
        None
    }
}

fn cmp_ref(t: &T, o: &Obj, path: &str) -> Option<Diff> {
    let d = |kind, detail: String| Some(Diff { path: path.to_string(), kind, detail });
    match (t, o) {
        (T::Null, Obj::Null) => None,
        (T::Bool(a), Obj::Bool(b)) if a == b => None,
        (T::Int(a), Obj::Int(b)) if a == b => None,
        (T::Int(a), other) => d("int", format!("expected {a}, got {other:?}")),
        (T::Real(a), Obj::Real(b)) if real_close(*a, *b, false) => None,
        (T::Real(a), Obj::Int(b)) if real_close(*a, *b as f64, false) => None,
        (T::Real(a), other) => d("real", format!("expected {a:?}, got {other:?}")),
        (T::Str(a), Obj::Str(b)) if a.as_bytes() == b.as_slice() => None,
        (T::Str(a), other) => d("string", format!("expected {:?}, got {other:?}", a)),
        (T::Bytes(a), Obj::Str(b)) if a == b => None,
        (T::Bytes(a), other) => d("bytestring", format!("expected {a:?}, got {other:?}")),
        (T::Name(a), Obj::Name(b)) if a.as_bytes() == b.as_slice() => None,
        (T::Name(a), other) => d("name", format!("expected /{a:?}, got {other:?}")),
        (T::Arr(a), Obj::Arr(b)) => {
            if a.len() != b.len() {
                return d("structure", format!("array length {} vs {}", a.len(), b.len()));
            }
            a.iter().zip(b).enumerate().find_map(|(i, (x, y))| cmp_ref(x, y, &format!("{path}[{i}]")))
        }
        (T::Dict(a), Obj::Dict(b)) => {
            if a.len() != b.0.len() {
                return d("structure", format!("dict size {} vs {}: {b:?}", a.len(), b.0.len()));
            }
            for (k, v) in a {
                match b.get(k.as_bytes()) {
                    None => return d("name", format!("key /{k:?} missing in {b:?}")),
                    Some(y) => {
                        if let Some(x) = cmp_ref(v, y, &format!("{path}/{k}")) {
                            return Some(x);
                        }
                    }
                }
            }
            None
        }
        (T::Ref(n, g), Obj::Ref(a, b)) if n == a && g == b => None,
        (_, other) => d("structure", format!("expected {t:?}, got {other:?}")),
    }
}

fn cmp_lib(t: &T, o: &PdfObject, path: &str) -> Option<Diff> {
    let d = |kind, detail: String| Some(Diff { path: path.to_string(), kind, detail });
    match (t, o) {
        (T::Null, PdfObject::Null) => None,
        (T::Bool(a), PdfObject::Boolean(b)) if a == b => None,
        (T::Int(a), PdfObject::Integer(b)) if a == b => None,
        (T::Int(a), other) => d("int", format!("expected {a}, got {other:?}")),
        (T::Real(a), PdfObject::Real(b)) if real_close(*a, *b, true) => None,
        (T::Real(a), PdfObject::Integer(b)) if real_close(*a, *b as f64, true) => None,
        (T::Real(a), other) => d("real", format!("expected {a:?}, got {other:?}")),
        (T::Str(a), PdfObject::String(b)) if a.as_bytes() == b.as_bytes() => None,
        (T::Str(a), other) => d("string", format!("expected {:?}, got {other:?}", a)),
        (T::Bytes(a), PdfObject::String(b)) if a.as_slice() == b.as_bytes() => None,
        (T::Bytes(a), other) => d("bytestring", format!("expected {a:?}, got {other:?}")),
        (T::Name(a), PdfObject::Name(b)) if a == b.as_str() => None,
        (T::Name(a), other) => d("name", format!("expected /{a:?}, got {other:?}")),
        (T::Arr(a), PdfObject::Array(b)) => {
            if a.len() != b.len() {
                return d("structure", format!("array length {} vs {}", a.len(), b.len()));
            }
            a.iter().enumerate().find_map(|(i, x)| cmp_lib(x, b.get(i).unwrap(), &format!("{path}[{i}]")))
        }
        (T::Dict(a), PdfObject::Dictionary(b)) => {
            if a.len() != b.0.len() {
                return d("structure", format!("dict size {} vs {}", a.len(), b.0.len()));
            }
            for (k, v) in a {
                match b.get(k) {
                    None => return d("name", format!("key /{k:?} missing")),
                    Some(y) => {
                        if let Some(x) = cmp_lib(v, y, &format!("{path}/{k}")) {
                            return Some(x);
                        }
                    }
                }
            }
            None
        }
        (T::Ref(n, g), PdfObject::Reference(a, b)) if n == a && g == b => None,
        (_, other) => d("structure", format!("expected {t:?}, got {other:?}")),
    }
}

#[derive(Default)]
struct Traits {
    hostile_name: Option<&'static str>,
    nonascii_name: bool,
    cr_in_string: bool,
    special: bool,
    depth: u32,
    nodes: u32,
    huge_real: bool,
    /// an array holds two integers that could be an object and a generation number, followed by the name /R
    int_int_name_r: bool,
}

fn scan(t: &T, depth: u32, tr: &mut Traits) {
    tr.depth = tr.depth.max(depth);
    tr.nodes += 1;
    let mut name = |n: &str, tr: &mut Traits| {
        if let Some(h) = hostile_name(n) {
            tr.hostile_name.get_or_insert(h);
        }
        if !n.is_ascii() {
            tr.nonascii_name = true;
        }
        if n.bytes().any(|c| !c.is_ascii_alphanumeric()) {
            tr.special = true;
        }
    };
    match t {
        T::Name(n) => name(n, tr),
        T::Str(s) => {
            if s.contains('\r') {
                tr.cr_in_string = true;
            }
            if s.bytes().any(|c| !c.is_ascii_alphanumeric()) {
                tr.special = true;
            }
        }
        T::Bytes(b) => {
            if b.iter().any(|c| !c.is_ascii_alphanumeric()) {
                tr.special = true;
            }
        }
        T::Real(r) => {
            if r.abs() >= 9.2e18 {
                tr.huge_real = true;
            }
        }
        T::Arr(a) => {
            // a number that is written as an integer token in the given range (reals without fraction print as integers)
            let int_in = |t: &T, hi: f64| match t {
                T::Int(i) => (0.0..=hi).contains(&(*i as f64)),
                T::Real(r) => {
                    // the writer keeps six decimals: 1e-7 is written "0"
                    let q = (r.abs() * 1e6).round() / 1e6;
                    q.fract() == 0.0 && q <= hi
                }
                _ => false,
            };
            if a.windows(3).any(|w| int_in(&w[0], 9_999_999.0) && int_in(&w[1], 65_535.0) && matches!(&w[2], T::Name(r) if r == "R")) {
                tr.int_int_name_r = true;
            }
            a.iter().for_each(|x| scan(x, depth + 1, tr))
        }
        T::Dict(d) => d.iter().for_each(|(k, v)| {
            name(k, tr);
            scan(v, depth + 1, tr)
        }),
        _ => {}
    }
}

fn classify(diff: &Diff, tr: &Traits, parse_failed: bool) -> (&'static str, String) {
    // attribute a mismatch to its most specific cause visible in the case
    if parse_failed && tr.huge_real && diff.detail.contains("Invalid integer") {
        return ("C09/real-roundtrip", "integral-real>=2^63-written-without-decimal-point".into());
    }
    if tr.int_int_name_r && (diff.kind == "structure" || diff.kind == "int") {
        return ("C09/structure-roundtrip", "array-int-int-name-R".into());
    }
    if diff.kind == "name" || parse_failed || diff.kind == "structure" {
        if let Some(h) = tr.hostile_name {
            return ("C09/name-roundtrip", h.to_string());
        }
    }
    if diff.kind == "name" && tr.nonascii_name {
        return ("C09/name-roundtrip", "name-non-ascii".into());
    }
    if diff.kind == "string" && tr.cr_in_string {
        return ("C09/string-roundtrip", "literal-string-has-CR".into());
    }
    if parse_failed && tr.huge_real {
        return ("C09/real-roundtrip", "integral-real>=2^63-written-without-decimal-point".into());
    }
    match diff.kind {
        "string" => ("C09/string-roundtrip", "other".into()),
        "bytestring" => ("C09/bytestring-roundtrip", "other".into()),
        "name" => ("C09/name-roundtrip", "other".into()),
        "real" => ("C09/real-roundtrip", if tr.huge_real { "huge".into() } else { "other".into() }),
        "int" => ("C09/integer-roundtrip", "other".into()),
        _ => ("C09/structure-roundtrip", if parse_failed { "parse-error".into() } else { "other".into() }),
    }
}

pub fn check(c: &Case) -> Outcome {
    let mut o = Outcome::new();
    let mut tr = Traits::default();
    scan(&c.tree, 0, &mut tr);
    o.nontrivial(tr.special);
    o.label_if(tr.hostile_name.is_some(), "hostile-name");
    o.label_if(tr.cr_in_string, "CR-in-string");
    o.label_if(tr.depth >= 3, "nested>=3");
    o.label_if(tr.huge_real, "huge-real");
    o.label_if(tr.nonascii_name, "non-ascii-name");
    o.label_if(c.stream.is_some(), "stream");
    let lib_obj = to_lib(&c.tree);
    // the writer has three object serializers: streaming, object-stream buffer (hook H1), and the generic one of the
    // incremental-update writer (hook H1b; it takes parsed objects and does not accept streams)
    let modes: &[(u8, &str)] = if c.stream.is_some() { &[(0, "direct")] } else { &[(0, "direct"), (1, "objstm"), (2, "incremental")] };
    for (m, mode) in modes {
        let obj = match (&c.stream, &lib_obj) {
            (Some(data), Object::Dictionary(d)) => Object::Stream(d.clone(), data.clone()),
            _ => lib_obj.clone(),
        };
        let ser = if *m == 2 { oxidize_pdf::writer::verif_hooks::serialize_incremental_object(&to_pdfobj(&c.tree)) } else { oxidize_pdf::writer::verif_hooks::serialize_object(&obj, *m == 1) };
        let bytes = match ser {
            Ok(b) => b,
            Err(e) => {
                o.fail("C09/serializes", format!("mode={mode}"), format!("{e}"));
                continue;
            }
        };
        // independent reader
        {
            let mut lx = refpdf::Lexer::new(&bytes, 0);
            let parsed = lx.parse_obj();
            match parsed {
                Err(e) => {
                    let d = Diff { path: String::new(), kind: "structure", detail: format!("independent lexer: at {}: {} in {:?}", e.at, e.msg, String::from_utf8_lossy(&bytes)) };
                    let (clause, class) = classify(&d, &tr, true);
                    o.fail(clause, format!("{class},reader=independent"), d.detail);
                }
                Ok(v) => {
                    let (val, rest_ok) = if let Some(data) = &c.stream {
                        // expect: dict, then stream keyword + data + endstream
                        let tail = &bytes[lx.pos..];
                        let exp_head = b"\nstream\n";
                        let ok = tail.starts_with(exp_head) && tail[exp_head.len()..].starts_with(data) && tail[exp_head.len() + data.len()..].starts_with(b"\nendstream");
                        let len_ok = v.as_dict().and_then(|d| d.int(b"Length")) == Some(data.len() as i64);
                        (v, ok && len_ok)
                    } else {
                        lx.skip_ws();
                        let ok = lx.pos == bytes.len();
                        (v, ok)
                    };
                    // the stream dict has an extra /Length
                    let val = match (&c.stream, val) {
                        (Some(_), Obj::Dict(mut d)) => {
                            d.remove(b"Length");
                            Obj::Dict(d)
                        }
                        (_, v) => v,
                    };
                    if let Some(d) = cmp_ref(&c.tree, &val, "") {
                        let (clause, class) = classify(&d, &tr, false);
                        o.fail(clause, format!("{class},reader=independent"), format!("mode={mode} at {}: {} — bytes {:?}", d.path, d.detail, String::from_utf8_lossy(&bytes)));
                    } else if !rest_ok {
                        let d = Diff { path: String::new(), kind: "structure", detail: "trailing data / stream framing".into() };
                        let (clause, class) = classify(&d, &tr, true);
                        o.fail(clause, format!("{class},reader=independent"), format!("mode={mode}: value equal but bytes left over or stream framing wrong: {:?}", String::from_utf8_lossy(&bytes)));
                    }
                }
            }
        }
        // library parser
        {
            let mut lx = Lexer::new(std::io::Cursor::new(bytes.clone()));
            match PdfObject::parse(&mut lx) {
                Err(e) => {
                    let d = Diff { path: String::new(), kind: "structure", detail: format!("library parser: {e} in {:?}", String::from_utf8_lossy(&bytes)) };
                    let (clause, class) = classify(&d, &tr, true);
                    o.fail(clause, format!("{class},reader=library"), d.detail);
                }
                Ok(v) => {
                    let v = match (&c.stream, v) {
                        (Some(data), PdfObject::Stream(s)) => {
                            if s.raw_data() != data.as_slice() {
                                o.fail("C09/stream-data-roundtrip", "reader=library", format!("data {:?} read as {:?}", data, s.raw_data()));
                            }
                            let mut d = s.dict.clone();
                            d.0.remove(&oxidize_pdf::parser::objects::PdfName("Length".into()));
                            PdfObject::Dictionary(d)
                        }
                        (Some(_), other) => {
                            let d = Diff { path: String::new(), kind: "structure", detail: String::new() };
                            let (clause, class) = classify(&d, &tr, true);
                            let class = if class == "parse-error" { "stream-not-read-as-stream".to_string() } else { class };
                            o.fail(clause, format!("{class},reader=library"), format!("stream object read back as {other:?}"));
                            continue;
                        }
                        (None, v) => v,
                    };
                    if let Some(d) = cmp_lib(&c.tree, &v, "") {
                        let (clause, class) = classify(&d, &tr, false);
                        o.fail(clause, format!("{class},reader=library"), format!("mode={mode} at {}: {} — bytes {:?}", d.path, d.detail, String::from_utf8_lossy(&bytes)));
                    } else if c.stream.is_none() {
                        match lx.next_token() {
                            Ok(oxidize_pdf::parser::lexer::Token::Eof) => {}
                            other => {
                                let d = Diff { path: String::new(), kind: "structure", detail: String::new() };
                                let (clause, class) = classify(&d, &tr, true);
                                o.fail(clause, format!("{class},reader=library"), format!("mode={mode}: value equal but input left unconsumed: next token {other:?}"));
                            }
                        }
                    }
                }
            }
        }
    }
    o
}

fn name_strategy() -> impl Strategy<Value = String> {
    prop_oneof![
        10 => "[A-Za-z][A-Za-z0-9_.-]{0,10}",
        // names spelled like keywords and operators of the object syntax
        1 => prop::sample::select(vec!["R", "obj", "endobj", "stream", "endstream", "true", "false", "null", "xref", "trailer", "startxref", "n", "f"]).prop_map(|s| s.to_string()),
        2 => "[A-Za-z0-9!$&*+:;=?@^_`|~,'\"-]{1,8}",
        2 => "[a-zA-Zé中ß\u{1F600}Ωж]{1,6}",
        1 => "[A-Za-z #/()<>\\[\\]{}%\t\n]{1,6}",
        1 => prop::collection::vec(any::<char>().prop_filter("no NUL", |c| *c != '\0'), 0..5).prop_map(|v| v.into_iter().collect::<String>()),
    ]
}

fn string_strategy() -> impl Strategy<Value = String> {
    prop_oneof![
        6 => "[ -~]{0,20}",
        3 => "[a-z()\\\\]{0,12}",
        2 => "[a-z\n\t\u{8}\u{c}()\\\\0-7]{0,12}",
        1 => "[a-z\r\n]{1,8}",
        2 => prop::collection::vec(any::<char>(), 0..10).prop_map(|v| v.into_iter().collect::<String>()),
        1 => "[a-zé中\u{1F600}]{0,8}",
    ]
}

fn real_strategy() -> impl Strategy<Value = f64> {
    prop_oneof![
        4 => (-1000i32..1000, 0u32..1_000_000).prop_map(|(a, b)| a as f64 + b as f64 / 1e6),
        2 => prop::sample::select(vec![0.0, -0.0, 0.1 + 0.2, 1e-7, -1e-7, 4.9e-324, 1e15, -1e15, 3.4e38, -3.4e38, 0.5, 1.0 / 3.0, 123456.789012, 2147483648.5, 9007199254740993.0]),
        2 => any::<f64>().prop_filter("finite, within Annex C", |x| x.is_finite() && x.abs() <= 3.4e38),
        1 => (any::<i32>(), 0u32..1000).prop_map(|(a, b)| a as f64 * 1000.0 + b as f64 / 7.0),
    ]
}

fn int_strategy() -> impl Strategy<Value = i64> {
    prop_oneof![
        4 => -1000i64..1000,
        2 => prop::sample::select(vec![i64::MAX, i64::MIN, i64::MIN + 1, 1 << 31, -(1 << 31), (1 << 31) - 1, 1 << 53, -(1 << 53), (1 << 32), u32::MAX as i64]),
        1 => any::<i64>(),
    ]
}

fn leaf() -> impl Strategy<Value = T> {
    prop_oneof![
        1 => Just(T::Null),
        1 => any::<bool>().prop_map(T::Bool),
        3 => int_strategy().prop_map(T::Int),
        3 => real_strategy().prop_map(T::Real),
        4 => string_strategy().prop_map(T::Str),
        2 => prop::collection::vec(any::<u8>(), 0..16).prop_map(T::Bytes),
        4 => name_strategy().prop_map(T::Name),
        1 => (0u32..100000, 0u16..3).prop_map(|(n, g)| T::Ref(n, g)),
    ]
}

fn dedup(v: Vec<(String, T)>) -> Vec<(String, T)> {
    let mut seen = std::collections::BTreeSet::new();
    v.into_iter().filter(|(k, _)| seen.insert(k.clone())).collect()
}

fn tree() -> impl Strategy<Value = T> {
    leaf().prop_recursive(5, 60, 6, |inner| {
        prop_oneof![
            prop::collection::vec(inner.clone(), 0..6).prop_map(T::Arr),
            prop::collection::vec((name_strategy(), inner), 0..6).prop_map(|v| T::Dict(dedup(v))),
        ]
    })
}

fn strategy() -> impl Strategy<Value = Case> {
    prop_oneof![
        9 => tree().prop_map(|tree| Case { tree, stream: None }),
        1 => (prop::collection::vec((name_strategy(), leaf()), 0..4), prop::collection::vec(any::<u8>(), 0..64))
            .prop_map(|(d, data)| Case { tree: T::Dict(dedup(d.into_iter().filter(|(k, _)| k != "Length").collect())), stream: Some(data) }),
    ]
}

fn run(ctx: &Ctx) {
    ctx.run_sub("tree", ctx.tier.pick(600_000, 4_000_000), strategy, check);
}

fn replay(ctx: &Ctx, sub: &str, case: &Value) -> Result<Outcome, String> {
    match sub.trim_start_matches("replay:") {
        "tree" => ctx.replay_case::<Case, _>(case, check),
        s => Err(format!("unknown sub-check {s}")),
    }
}
