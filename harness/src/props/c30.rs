//! C30 — page resource names chosen by the user cannot break the page.
use crate::engine::{Ctx, Outcome, PropertyDef};
use crate::props::progdoc::{self, ImgSpec};
use crate::refpdf::{self, textstring, Lexer, Obj, Tok};
use oxidize_pdf::forms::{FormManager, TextField, Widget};
use oxidize_pdf::geometry::Rectangle as GRect;
use oxidize_pdf::graphics::FormXObject;
use oxidize_pdf::parser::{ParseOptions, PdfReader};
use oxidize_pdf::{Document, Font, Page, Point, Rectangle};
use proptest::prelude::*;
use serde::{Deserialize, Serialize};
use serde_json::Value;

pub fn def() -> PropertyDef {
    PropertyDef {
        id: "C30",
        level: "exploration",
        rule: "one page with 1–4 images (add_image + draw_image), 0–2 form XObjects (add_form_xobject + Do through the graphics context), 0–2 custom fonts (add_font_from_bytes + Font::Custom, DejaVuSans) and 0–3 text fields (TextField::new), every name drawn from the full name alphabet: plain, with space / ( ) < > [ ] { } % #, non-ASCII, long, names differing only in characters that need escaping; three writer configurations. Oracle: the page re-parses in the library's strict preset and in the independent reader; /XObject and /Font have exactly the authored names (after #xx decoding) each resolving to the authored resource (image width × height; font subtype); the content stream's operands of Do and Tf are, after decoding, the authored names in call order; field /T values decode to the authored names. An API that refuses a name with an error is accepted (value or error). Non-trivial: some name contains a byte outside [A-Za-z0-9]; distinct by hash of the case.",
        assumptions: &[
            "NUL is excluded from names (not representable in a PDF name)",
            "names are compared as UTF-8 bytes after #xx decoding by the independent lexer",
            "resource APIs that document name validation (form XObjects, colour spaces, patterns, shadings) may return Err for a hostile name; then the resource is simply left out of the model",
        ],
        trusted_base: &["refpdf strict reader and lexer", "DejaVuSans.ttf from /verif/assets as the custom font"],
        run,
        replay,
    }
}

#[derive(Clone, Debug, Serialize, Deserialize)]
pub struct Case {
    pub images: Vec<ImgSpec>,
    pub forms: Vec<String>,
    pub fonts: Vec<String>,
    pub fields: Vec<String>,
    pub cfg: u8,
}

fn font_bytes() -> Option<&'static Vec<u8>> {
    static F: std::sync::OnceLock<Option<Vec<u8>>> = std::sync::OnceLock::new();
    F.get_or_init(|| {
        let dir = std::env::var("VERIF_DIR").unwrap_or_else(|_| "/verif".into());
        std::fs::read(format!("{dir}/assets/DejaVuSans.ttf")).ok().or_else(|| std::fs::read("/verif/assets/DejaVuSans.ttf").ok())
    })
    .as_ref()
}

fn kind(n: &str) -> &'static str {
    let b = n.as_bytes();
    if b.iter().all(|c| c.is_ascii_alphanumeric()) {
        "plain"
    } else if b.iter().any(|c| refpdf::is_ws(*c)) {
        "space"
    } else if b.iter().any(|c| refpdf::is_delim(*c)) {
        "delimiter"
    } else if b.contains(&b'#') {
        "hash"
    } else if !n.is_ascii() {
        "non-ascii"
    } else {
        "punctuation"
    }
}

struct Built {
    bytes: Vec<u8>,
    images: Vec<ImgSpec>,
    forms: Vec<String>,
    fonts: Vec<String>,
    fields: Vec<String>,
    do_order: Vec<String>,
    tf_order: Vec<String>,
    refused: Vec<&'static str>,
}

fn build(c: &Case) -> Result<Built, String> {
    let mut doc = Document::new();
    let mut page = Page::a4();
    let mut refused = Vec::new();
    let mut do_order = Vec::new();
    let mut tf_order = Vec::new();
    let mut images = Vec::new();
    for im in &c.images {
        page.add_image(im.name.clone(), progdoc::make_image(im)?);
        images.push(im.clone());
    }
    // draw in order (each image once, first image twice)
    for (i, im) in c.images.iter().enumerate() {
        match page.draw_image(&im.name, 10.0 + i as f64 * 30.0, 10.0, 20.0, 20.0) {
            Ok(()) => do_order.push(im.name.clone()),
            Err(e) => return Err(format!("draw_image of a registered image failed: {e}")),
        }
    }
    let mut forms = Vec::new();
    for f in &c.forms {
        if c.images.iter().any(|i| &i.name == f) {
            continue; // XObject names share one dictionary
        }
        let bbox = GRect::from_position_and_size(0.0, 0.0, 10.0, 10.0);
        match page.add_form_xobject(f.clone(), FormXObject::new(bbox)) {
            Ok(()) => forms.push(f.clone()),
            Err(_) => refused.push("form-xobject-name-refused"),
        }
    }
    let mut fonts = Vec::new();
    if let Some(fb) = font_bytes() {
        for name in &c.fonts {
            match doc.add_font_from_bytes(name.clone(), fb.clone()) {
                Ok(()) => {
                    match page.text().set_font(Font::Custom(name.clone()), 11.0).at(50.0, 600.0 - 20.0 * fonts.len() as f64).write("abc") {
                        Ok(_) => {
                            fonts.push(name.clone());
                            tf_order.push(name.clone());
                        }
                        Err(_) => refused.push("custom-font-write-refused"),
                    }
                }
                Err(_) => refused.push("custom-font-name-refused"),
            }
        }
    }
    let mut fields = Vec::new();
    let mut fm = FormManager::new();
    for (k, name) in c.fields.iter().enumerate() {
        let rect = Rectangle::new(Point::new(300.0, 500.0 + 20.0 * k as f64), Point::new(450.0, 515.0 + 20.0 * k as f64));
        let widget = Widget::new(rect);
        match fm.add_text_field(TextField::new(name.clone()), widget.clone(), None) {
            Ok(r) => match page.add_form_widget_with_ref(widget, r) {
                Ok(_) => fields.push(name.clone()),
                Err(_) => refused.push("widget-refused"),
            },
            Err(_) => refused.push("field-name-refused"),
        }
    }
    doc.add_page(page);
    if !fields.is_empty() {
        doc.set_form_manager(fm);
    }
    let cfg = match c.cfg % 4 {
        // object streams (~3 % of the cases: every read of such a file costs seconds): resource dictionaries are then
        // written by the object-stream serializer
        3 => oxidize_pdf::writer::WriterConfig { use_xref_streams: true, use_object_streams: true, pdf_version: "1.5".into(), compress_streams: true, incremental_update: false },
        0 => oxidize_pdf::writer::WriterConfig { use_xref_streams: false, use_object_streams: false, pdf_version: "1.4".into(), compress_streams: false, incremental_update: false },
        1 => oxidize_pdf::writer::WriterConfig { use_xref_streams: false, use_object_streams: false, pdf_version: "1.7".into(), compress_streams: true, incremental_update: false },
        _ => oxidize_pdf::writer::WriterConfig { use_xref_streams: true, use_object_streams: false, pdf_version: "1.5".into(), compress_streams: true, incremental_update: false },
    };
    let bytes = doc.to_bytes_with_config(cfg).map_err(|e| format!("to_bytes_with_config: {e}"))?;
    Ok(Built { bytes, images, forms, fonts, fields, do_order, tf_order, refused })
}

pub fn check(c: &Case) -> Outcome {
    let mut o = Outcome::new();
    let all_names: Vec<&String> = c.images.iter().map(|i| &i.name).chain(&c.forms).chain(&c.fonts).chain(&c.fields).collect();
    o.nontrivial(all_names.iter().any(|n| kind(n) != "plain"));
    for n in &all_names {
        o.label(format!("name={}", kind(n)));
    }
    let worst = |names: &[String]| -> &'static str {
        for k in ["space", "delimiter", "hash", "non-ascii", "punctuation"] {
            if names.iter().any(|n| kind(n) == k) {
                return k;
            }
        }
        "plain"
    };
    let b = match build(c) {
        Ok(b) => b,
        Err(e) => {
            o.fail("C30/document-builds", worst(&all_names.iter().map(|s| s.to_string()).collect::<Vec<_>>()), e);
            return o;
        }
    };
    for r in &b.refused {
        o.label(*r);
    }
    crate::engine::isolate::dump("c30.pdf", &b.bytes);
    let img_names: Vec<String> = b.images.iter().map(|i| i.name.clone()).collect();
    // ---- independent reader
    let rd = match refpdf::Reader::open(&b.bytes, None) {
        Ok(r) => r,
        Err(e) => {
            o.fail("C30/independent-reader-opens", worst(&all_names.iter().map(|s| s.to_string()).collect::<Vec<_>>()), format!("at {}: {}", e.at, e.msg));
            return o;
        }
    };
    let pages = match rd.pages() {
        Ok(p) if p.len() == 1 => p,
        other => {
            o.fail("C30/page-reparses", worst(&img_names), format!("{:?}", other.map(|p| p.len())));
            return o;
        }
    };
    let page = &pages[0];
    let res = match page.inherited.get(b"Resources").map(|r| rd.resolve(r)) {
        Some(Ok(Obj::Dict(d))) => d,
        other => {
            o.fail("C30/page-reparses", worst(&img_names), format!("/Resources: {other:?}"));
            return o;
        }
    };
    let sub = |k: &[u8]| -> Option<refpdf::Dict> {
        match res.get(k).map(|v| rd.resolve(v)) {
            Some(Ok(Obj::Dict(d))) => Some(d),
            _ => None,
        }
    };
    // XObjects
    let xo = sub(b"XObject").unwrap_or_default();
    let mut want: Vec<Vec<u8>> = img_names.iter().chain(&b.forms).map(|n| n.as_bytes().to_vec()).collect();
    want.sort();
    want.dedup();
    let mut have: Vec<Vec<u8>> = xo.keys().map(|k| k.to_vec()).collect();
    have.sort();
    if have != want {
        o.fail(
            "C30/resource-names-as-authored",
            format!("category=XObject,name={}", worst(&img_names.iter().chain(&b.forms).cloned().collect::<Vec<_>>())),
            format!("authored {:?}, /XObject has {:?}", want.iter().map(|b| String::from_utf8_lossy(b).into_owned()).collect::<Vec<_>>(), have.iter().map(|b| String::from_utf8_lossy(b).into_owned()).collect::<Vec<_>>()),
        );
    } else {
        // last registration of a name wins (the API documents silent overwrite)
        for im in &b.images {
            if b.images.iter().rposition(|x| x.name == im.name) != b.images.iter().position(|x| std::ptr::eq(x, im)) {
                continue;
            }
            match xo.get(im.name.as_bytes()).map(|v| rd.resolve(v)) {
                Some(Ok(Obj::Stream(s))) => {
                    if s.dict.int(b"Width") != Some(im.w as i64) || s.dict.int(b"Height") != Some(im.h as i64) || s.dict.name(b"Subtype") != Some(b"Image") {
                        o.fail("C30/name-resolves-to-authored-resource", format!("category=XObject,name={}", kind(&im.name)), format!("image {:?} authored {}x{}, dictionary {:?}", im.name, im.w, im.h, s.dict));
                    }
                }
                other => o.fail("C30/name-resolves-to-authored-resource", format!("category=XObject,name={}", kind(&im.name)), format!("image {:?} → {other:?}", im.name)),
            }
        }
    }
    // fonts: authored custom names must be present
    let fo = sub(b"Font").unwrap_or_default();
    for f in &b.fonts {
        match fo.get(f.as_bytes()).map(|v| rd.resolve(v)) {
            Some(Ok(Obj::Dict(d))) if d.name(b"Type") == Some(b"Font") => {}
            other => o.fail("C30/resource-names-as-authored", format!("category=Font,name={}", kind(f)), format!("custom font {f:?} → {other:?}; /Font has {:?}", fo.keys().map(|k| String::from_utf8_lossy(k).into_owned()).collect::<Vec<_>>())),
        }
    }
    // content operands
    match rd.page_content(page) {
        Err(e) => o.fail("C30/page-reparses", worst(&img_names), format!("content: {}", e.msg)),
        Ok(content) => {
            let mut lx = Lexer::new(&content, 0);
            let mut last_name: Option<Vec<u8>> = None;
            let mut first_of_run: Option<Vec<u8>> = None;
            let (mut dos, mut tfs) = (Vec::new(), Vec::new());
            let mut err = None;
            loop {
                match lx.next_tok() {
                    Ok(Tok::Eof) => break,
                    Ok(Tok::Name(n)) => {
                        if first_of_run.is_none() {
                            first_of_run = Some(n.clone());
                        }
                        last_name = Some(n);
                    }
                    Ok(Tok::Kw(k)) => {
                        match k.as_slice() {
                            b"Do" => dos.push(last_name.clone().unwrap_or_default()),
                            b"Tf" => tfs.push(first_of_run.clone().unwrap_or_default()),
                            _ => {}
                        }
                        last_name = None;
                        first_of_run = None;
                    }
                    Ok(_) => {}
                    Err(e) => {
                        err = Some(e);
                        break;
                    }
                }
            }
            if let Some(e) = err {
                o.fail("C30/content-stream-tokenizes", worst(&all_names.iter().map(|s| s.to_string()).collect::<Vec<_>>()), format!("at {}: {} in {:?}", e.at, e.msg, String::from_utf8_lossy(&content[..content.len().min(300)])));
            } else {
                let want_do: Vec<Vec<u8>> = b.do_order.iter().map(|n| n.as_bytes().to_vec()).collect();
                if dos != want_do {
                    o.fail("C30/drawing-operands-as-authored", format!("operator=Do,name={}", worst(&b.do_order)), format!("authored {:?}, content has {:?}", b.do_order, dos.iter().map(|b| String::from_utf8_lossy(b).into_owned()).collect::<Vec<_>>()));
                }
                let want_tf: Vec<Vec<u8>> = b.tf_order.iter().map(|n| n.as_bytes().to_vec()).collect();
                let custom_tfs: Vec<Vec<u8>> = tfs.into_iter().filter(|n| want_tf.contains(n) || !fo.keys().any(|k| k == n.as_slice())).collect();
                if custom_tfs != want_tf {
                    o.fail("C30/drawing-operands-as-authored", format!("operator=Tf,name={}", worst(&b.tf_order)), format!("authored {:?}, content has {:?}", b.tf_order, custom_tfs.iter().map(|b| String::from_utf8_lossy(b).into_owned()).collect::<Vec<_>>()));
                }
            }
        }
    }
    // fields
    if !b.fields.is_empty() {
        let names = (|| -> Result<Vec<String>, String> {
            let cat = rd.catalog().map_err(|e| e.msg)?;
            let Obj::Dict(af) = rd.resolve(cat.get(b"AcroForm").ok_or("no /AcroForm")?).map_err(|e| e.msg)? else { return Err("/AcroForm".into()) };
            let Obj::Arr(fs) = rd.resolve(af.get(b"Fields").ok_or("no /Fields")?).map_err(|e| e.msg)? else { return Err("/Fields".into()) };
            let mut v = Vec::new();
            for f in fs {
                let Obj::Dict(d) = rd.resolve(&f).map_err(|e| e.msg)? else { return Err("field".into()) };
                match d.get(b"T").map(|t| rd.resolve(t)) {
                    Some(Ok(Obj::Str(s))) => v.push(textstring::decode(&s)),
                    other => return Err(format!("/T: {other:?}")),
                }
            }
            Ok(v)
        })();
        match names {
            Err(e) => o.fail("C30/field-names-as-authored", format!("name={}", worst(&b.fields)), e),
            Ok(mut got) => {
                let mut want = b.fields.clone();
                want.sort();
                want.dedup();
                got.sort();
                got.dedup();
                if got != want {
                    o.fail("C30/field-names-as-authored", format!("name={}", worst(&b.fields)), format!("authored {want:?}, /T values {got:?}"));
                }
            }
        }
    }
    // ---- library strict
    match PdfReader::new_with_options(std::io::Cursor::new(b.bytes.clone()), ParseOptions::strict()) {
        Err(e) => o.fail("C30/library-strict-reparses", worst(&img_names), format!("open: {e}")),
        Ok(r) => {
            let doc = r.into_document();
            match doc.get_page(0) {
                Err(e) => o.fail("C30/library-strict-reparses", worst(&img_names), format!("get_page: {e}")),
                Ok(p) => {
                    let xo = p.get_resources().and_then(|r| r.get("XObject")).and_then(|x| doc.resolve(x).ok());
                    let have: Vec<String> = xo.as_ref().and_then(|x| x.as_dict()).map(|d| d.0.keys().map(|k| k.0.clone()).collect()).unwrap_or_default();
                    for n in img_names.iter().chain(&b.forms) {
                        if !have.contains(n) {
                            o.fail("C30/library-sees-authored-names", format!("category=XObject,name={}", kind(n)), format!("{n:?} not among {have:?}"));
                        }
                    }
                    match doc.get_page_content_streams(&p).map(|v| v.concat()).map_err(|e| e.to_string()).and_then(|c| oxidize_pdf::parser::content::ContentParser::parse(&c).map_err(|e| e.to_string())) {
                        Err(e) => o.fail("C30/library-strict-reparses", worst(&img_names), format!("content: {e}")),
                        Ok(ops) => {
                            use oxidize_pdf::parser::content::ContentOperation as Op;
                            let dos: Vec<String> = ops.iter().filter_map(|op| if let Op::PaintXObject(n) = op { Some(n.clone()) } else { None }).collect();
                            if dos != b.do_order {
                                o.fail("C30/library-reads-operands-as-authored", format!("operator=Do,name={}", worst(&b.do_order)), format!("authored {:?}, ContentParser {:?}", b.do_order, dos));
                            }
                        }
                    }
                }
            }
        }
    }
    o
}

pub fn name() -> impl Strategy<Value = String> {
    prop_oneof![
        5 => "[A-Za-z][A-Za-z0-9]{0,8}",
        3 => "[A-Za-z0-9 ]{1,8}",
        3 => "[A-Za-z/()<>\\[\\]{}%]{1,6}",
        2 => "[A-Za-z#]{1,6}",
        2 => "[a-zé中ßΩ\u{1F600}]{1,5}",
        2 => "[A-Za-z0-9._+-]{1,10}",
        1 => "[a-z]{128,140}",
        1 => prop::collection::vec(any::<char>().prop_filter("no NUL", |c| *c != '\0'), 1..6).prop_map(|v| v.into_iter().collect::<String>()),
    ]
}

fn uniq(v: Vec<String>) -> Vec<String> {
    let mut seen = std::collections::BTreeSet::new();
    v.into_iter().filter(|n| seen.insert(n.clone())).collect()
}

fn strategy() -> impl Strategy<Value = Case> {
    (
        prop::collection::vec((name(), 0u8..3, 1u32..6, 1u32..6, any::<u32>()), 1..5),
        prop::collection::vec(name(), 0..3),
        prop::collection::vec(name(), 0..3),
        prop::collection::vec(name(), 0..4),
        prop_oneof![32 => 0u8..3, 1 => Just(3u8)],
        prop::bool::weighted(0.15),
    )
        .prop_map(|(imgs, forms, fonts, fields, cfg, twins)| {
            let mut images: Vec<ImgSpec> = Vec::new();
            for (name, kind, w, h, seed) in imgs {
                if !images.iter().any(|i| i.name == name) {
                    images.push(ImgSpec { name, kind, w, h, seed });
                }
            }
            if twins && images.len() >= 1 {
                // a second name that differs from the first only by a character needing an escape
                let t = format!("{} ", images[0].name);
                if !images.iter().any(|i| i.name == t) {
                    let mut s = images[0].clone();
                    s.name = t;
                    s.w += 1;
                    images.push(s);
                }
            }
            Case { images, forms: uniq(forms), fonts: uniq(fonts), fields: uniq(fields), cfg }
        })
}

fn run(ctx: &Ctx) {
    ctx.set_shrink_budget(600);
    ctx.run_sub("names", ctx.tier.pick(5_000, 60_000), strategy, check);
}

fn replay(ctx: &Ctx, sub: &str, case: &Value) -> Result<Outcome, String> {
    match sub.trim_start_matches("replay:") {
        "names" => ctx.replay_case::<Case, _>(case, check),
        s => Err(format!("unknown sub-check {s}")),
    }
}
