//! Authoring programs: a serialisable model of a sequence of public authoring-API calls that
//! builds a `Document`, shared by C02, C03, C05, C20 (and used with hostile names by C30).
use oxidize_pdf::writer::WriterConfig;
use oxidize_pdf::{Color, ColorSpace, Document, Font, Image, Page};
use proptest::prelude::*;
use serde::{Deserialize, Serialize};

#[derive(Clone, Debug, Serialize, Deserialize, PartialEq)]
pub enum Col {
    Gray(f64),
    Rgb(f64, f64, f64),
    Cmyk(f64, f64, f64, f64),
}

impl Col {
    pub fn to_lib(&self) -> Color {
        match *self {
            Col::Gray(g) => Color::Gray(g),
            Col::Rgb(r, g, b) => Color::Rgb(r, g, b),
            Col::Cmyk(c, m, y, k) => Color::Cmyk(c, m, y, k),
        }
    }
}

#[derive(Clone, Debug, Serialize, Deserialize, PartialEq)]
pub enum Call {
    Text { font: u8, size: f64, x: f64, y: f64, text: String },
    MoveTo(f64, f64),
    LineTo(f64, f64),
    CurveTo(f64, f64, f64, f64, f64, f64),
    Rect(f64, f64, f64, f64),
    ClosePath,
    Stroke,
    Fill,
    FillStroke,
    Clip,
    EndPath,
    Save,
    Restore,
    LineWidth(f64),
    FillColor(Col),
    StrokeColor(Col),
    Transform(f64, f64, f64, f64, f64, f64),
    Opacity(f64),
    DrawImage { img: u8, x: f64, y: f64, w: f64, h: f64 },
}

#[derive(Clone, Debug, Serialize, Deserialize, PartialEq)]
pub struct ImgSpec {
    pub name: String,
    pub kind: u8, // 0 gray, 1 rgb, 2 rgba
    pub w: u32,
    pub h: u32,
    pub seed: u32,
}

#[derive(Clone, Debug, Serialize, Deserialize, PartialEq)]
pub struct PageProg {
    pub w: f64,
    pub h: f64,
    pub rotation: i32,
    pub images: Vec<ImgSpec>,
    pub calls: Vec<Call>,
    /// /Contents of text annotations on the page (strings outside content streams and Info)
    #[serde(default)]
    pub annots: Vec<String>,
}

#[derive(Clone, Debug, Serialize, Deserialize, PartialEq, Default)]
pub struct Info {
    pub title: Option<String>,
    pub author: Option<String>,
    pub subject: Option<String>,
    pub keywords: Option<String>,
    pub creator: Option<String>,
}

#[derive(Clone, Debug, Serialize, Deserialize, PartialEq)]
pub struct Prog {
    pub pages: Vec<PageProg>,
    pub info: Info,
}

#[derive(Clone, Copy, Debug, Serialize, Deserialize, PartialEq)]
pub struct Cfg {
    pub xref_streams: bool,
    pub object_streams: bool,
    pub compress: bool,
    pub version: u8, // 0: 1.4, 1: 1.5, 2: 1.7, 3: 2.0
}

impl Cfg {
    pub fn to_lib(&self) -> WriterConfig {
        WriterConfig {
            use_xref_streams: self.xref_streams || self.object_streams,
            use_object_streams: self.object_streams,
            pdf_version: ["1.4", "1.5", "1.7", "2.0"][(self.version % 4) as usize].to_string(),
            compress_streams: self.compress,
            incremental_update: false,
        }
    }
    pub fn name(&self) -> String {
        format!(
            "{}{}",
            if self.object_streams {
                "objstm"
            } else if self.xref_streams {
                "xrefstm"
            } else {
                "classic"
            },
            if self.compress { "+flate" } else { "" }
        )
    }
    pub fn all() -> Vec<Cfg> {
        let mut v = Vec::new();
        for (x, o) in [(false, false), (true, false), (true, true)] {
            for c in [false, true] {
                v.push(Cfg { xref_streams: x, object_streams: o, compress: c, version: if x { 2 } else { 0 } });
            }
        }
        v
    }
}

pub const FONTS: [Font; 14] = [
    Font::Helvetica,
    Font::HelveticaBold,
    Font::HelveticaOblique,
    Font::HelveticaBoldOblique,
    Font::TimesRoman,
    Font::TimesBold,
    Font::TimesItalic,
    Font::TimesBoldItalic,
    Font::Courier,
    Font::CourierBold,
    Font::CourierOblique,
    Font::CourierBoldOblique,
    Font::Symbol,
    Font::ZapfDingbats,
];

pub fn image_pixels(spec: &ImgSpec) -> Vec<u8> {
    let ch = match spec.kind {
        0 => 1,
        1 => 3,
        _ => 4,
    };
    let n = (spec.w * spec.h * ch) as usize;
    let mut x = spec.seed.wrapping_mul(2654435761).wrapping_add(12345);
    (0..n)
        .map(|_| {
            x ^= x << 13;
            x ^= x >> 17;
            x ^= x << 5;
            (x >> 8) as u8
        })
        .collect()
}

pub fn make_image(spec: &ImgSpec) -> Result<Image, String> {
    let px = image_pixels(spec);
    match spec.kind {
        0 => Ok(Image::from_raw_data(px, spec.w, spec.h, ColorSpace::DeviceGray, 8)),
        1 => Ok(Image::from_raw_data(px, spec.w, spec.h, ColorSpace::DeviceRGB, 8)),
        _ => Image::from_rgba_data(px, spec.w, spec.h).map_err(|e| e.to_string()),
    }
}

pub fn build_page(p: &PageProg) -> Result<Page, String> {
    let mut page = Page::new(p.w, p.h);
    if p.rotation != 0 {
        page.set_rotation(p.rotation);
    }
    for im in &p.images {
        page.add_image(im.name.clone(), make_image(im)?);
    }
    for (k, contents) in p.annots.iter().enumerate() {
        use oxidize_pdf::annotations::{Annotation, AnnotationType};
        let rect = oxidize_pdf::Rectangle::new(oxidize_pdf::Point::new(10.0 + 25.0 * k as f64, 10.0), oxidize_pdf::Point::new(30.0 + 25.0 * k as f64, 30.0));
        page.add_annotation(Annotation::new(AnnotationType::Text, rect).with_contents(contents.clone()));
    }
    for c in &p.calls {
        match c {
            Call::Text { font, size, x, y, text } => {
                page.text().set_font(FONTS[(*font as usize) % 12].clone(), *size).at(*x, *y).write(text).map_err(|e| format!("text.write: {e}"))?;
            }
            Call::MoveTo(x, y) => {
                page.graphics().move_to(*x, *y);
            }
            Call::LineTo(x, y) => {
                page.graphics().line_to(*x, *y);
            }
            Call::CurveTo(a, b, c2, d, e, f) => {
                page.graphics().curve_to(*a, *b, *c2, *d, *e, *f);
            }
            Call::Rect(x, y, w, h) => {
                page.graphics().rect(*x, *y, *w, *h);
            }
            Call::ClosePath => {
                page.graphics().close_path();
            }
            Call::Stroke => {
                page.graphics().stroke();
            }
            Call::Fill => {
                page.graphics().fill();
            }
            Call::FillStroke => {
                page.graphics().fill_stroke();
            }
            Call::Clip => {
                page.graphics().clip();
            }
            Call::EndPath => {
                page.graphics().end_path();
            }
            Call::Save => {
                page.graphics().save_state();
            }
            Call::Restore => {
                page.graphics().restore_state();
            }
            Call::LineWidth(w) => {
                page.graphics().set_line_width(*w);
            }
            Call::FillColor(c) => {
                page.graphics().set_fill_color(c.to_lib());
            }
            Call::StrokeColor(c) => {
                page.graphics().set_stroke_color(c.to_lib());
            }
            Call::Transform(a, b, c2, d, e, f) => {
                page.graphics().transform(*a, *b, *c2, *d, *e, *f);
            }
            Call::Opacity(o) => {
                page.graphics().set_opacity(*o);
            }
            Call::DrawImage { img, x, y, w, h } => {
                if !p.images.is_empty() {
                    let name = &p.images[(*img as usize) % p.images.len()].name;
                    page.draw_image(name, *x, *y, *w, *h).map_err(|e| format!("draw_image: {e}"))?;
                }
            }
        }
    }
    Ok(page)
}

/// Fixed dates so that files only differ where the writer itself introduces differences.
pub fn build_document(p: &Prog) -> Result<Document, String> {
    use chrono::TimeZone;
    // hook H2: hold the clock fixed so that ModDate does not depend on when the case runs
    oxidize_pdf::verif_clock::set_fixed_clock(Some(1_704_164_645));
    let mut doc = Document::new();
    let t = chrono::Utc.with_ymd_and_hms(2024, 1, 2, 3, 4, 5).unwrap();
    doc.set_creation_date(t);
    doc.set_modification_date(t);
    if let Some(s) = &p.info.title {
        doc.set_title(s.clone());
    }
    if let Some(s) = &p.info.author {
        doc.set_author(s.clone());
    }
    if let Some(s) = &p.info.subject {
        doc.set_subject(s.clone());
    }
    if let Some(s) = &p.info.keywords {
        doc.set_keywords(s.clone());
    }
    if let Some(s) = &p.info.creator {
        doc.set_creator(s.clone());
    }
    for pg in &p.pages {
        doc.add_page(build_page(pg)?);
    }
    Ok(doc)
}

pub fn write(p: &Prog, cfg: Cfg) -> Result<Vec<u8>, String> {
    let mut doc = build_document(p)?;
    doc.to_bytes_with_config(cfg.to_lib()).map_err(|e| format!("to_bytes_with_config: {e}"))
}

// ------------------------------------------------------------------ strategies

fn coord() -> impl Strategy<Value = f64> {
    prop_oneof![
        6 => (-2000i32..20000).prop_map(|v| v as f64 / 10.0),
        2 => (0i32..800).prop_map(|v| v as f64),
        1 => prop::sample::select(vec![0.0, 0.004, 0.005, 0.995, 9.995, -0.005, 14399.99, 1e-7]),
    ]
}

fn unit() -> impl Strategy<Value = f64> {
    prop_oneof![3 => (0u32..=1000).prop_map(|v| v as f64 / 1000.0), 1 => prop::sample::select(vec![0.0, 1.0, 0.5, 0.33333, 0.99995])]
}

fn col() -> impl Strategy<Value = Col> {
    prop_oneof![unit().prop_map(Col::Gray), (unit(), unit(), unit()).prop_map(|(r, g, b)| Col::Rgb(r, g, b)), (unit(), unit(), unit(), unit()).prop_map(|(c, m, y, k)| Col::Cmyk(c, m, y, k)),]
}

pub fn ascii_text() -> impl Strategy<Value = String> {
    prop_oneof![
        5 => "[A-Za-z0-9 ,.;:!?-]{1,24}",
        2 => "[A-Za-z()\\\\ ]{1,16}",
        1 => "[A-Za-zéèüñçÀß©®°±]{1,12}",
    ]
}

pub fn call(n_images: usize) -> impl Strategy<Value = Call> {
    // without images a DrawImage call is a no-op in build_page; proptest forbids weight 0
    let img_w = if n_images > 0 { 3 } else { 1 };
    prop_oneof![
        6 => (0u8..12, prop_oneof![Just(12.0f64), Just(9.5), (40u32..400).prop_map(|v| v as f64 / 10.0)], coord(), coord(), ascii_text()).prop_map(|(font, size, x, y, text)| Call::Text { font, size, x, y, text }),
        3 => (coord(), coord()).prop_map(|(x, y)| Call::MoveTo(x, y)),
        3 => (coord(), coord()).prop_map(|(x, y)| Call::LineTo(x, y)),
        1 => (coord(), coord(), coord(), coord(), coord(), coord()).prop_map(|(a, b, c, d, e, f)| Call::CurveTo(a, b, c, d, e, f)),
        3 => (coord(), coord(), coord(), coord()).prop_map(|(a, b, c, d)| Call::Rect(a, b, c, d)),
        1 => Just(Call::ClosePath),
        3 => Just(Call::Stroke),
        3 => Just(Call::Fill),
        1 => Just(Call::FillStroke),
        1 => Just(Call::Clip),
        1 => Just(Call::EndPath),
        2 => Just(Call::Save),
        2 => Just(Call::Restore),
        2 => (0u32..200).prop_map(|v| Call::LineWidth(v as f64 / 10.0)),
        2 => col().prop_map(Call::FillColor),
        2 => col().prop_map(Call::StrokeColor),
        1 => (coord(), coord()).prop_map(|(e, f)| Call::Transform(1.0, 0.0, 0.0, 1.0, e, f)),
        1 => unit().prop_map(Call::Opacity),
        img_w => (any::<u8>(), coord(), coord(), 1u32..300, 1u32..300).prop_map(|(img, x, y, w, h)| Call::DrawImage { img, x, y, w: w as f64, h: h as f64 }),
    ]
}

pub fn img_spec(name: BoxedStrategy<String>) -> impl Strategy<Value = ImgSpec> {
    // names, sizes and (rarely) pixel seeds come from small pools half of the time, so that different pages of a
    // document carry same-named, same-sized images with different pixels, or genuinely identical ones
    let name = prop_oneof![3 => prop::sample::select(vec!["Im0", "Im1", "Im2"]).prop_map(|s| s.to_string()), 2 => name];
    let dims = prop_oneof![1 => prop::sample::select(vec![(2u32, 2u32), (3, 2), (6, 4)]), 1 => (1u32..12, 1u32..12)];
    let seed = prop_oneof![5 => any::<u32>(), 1 => Just(7u32)];
    (name, 0u8..3, dims, seed).prop_map(|(name, kind, (w, h), seed)| ImgSpec { name, kind, w, h, seed })
}

pub fn page_prog() -> impl Strategy<Value = PageProg> {
    let size = prop_oneof![
        3 => Just((595.0, 842.0)),
        2 => Just((612.0, 792.0)),
        2 => (1u32..14400, 1u32..14400).prop_map(|(w, h)| (w as f64, h as f64)),
        1 => (10u32..144000, 10u32..144000).prop_map(|(w, h)| (w as f64 / 10.0, h as f64 / 10.0)),
    ];
    (size, prop::sample::select(vec![0, 0, 0, 90, 180, 270]), prop::collection::vec(img_spec("Im[0-9]{1,2}".boxed()), 0..3)).prop_flat_map(|((w, h), rotation, mut images)| {
        // unique image names
        let mut seen = std::collections::BTreeSet::new();
        images.retain(|i| seen.insert(i.name.clone()));
        let n = images.len();
        (prop::collection::vec(call(n), 0..30), prop_oneof![3 => Just(vec![]), 1 => prop::collection::vec("[A-Za-z0-9 ().,-]{1,20}", 1..3)]).prop_map(move |(calls, annots)| PageProg { w, h, rotation, images: images.clone(), calls, annots })
    })
}

pub fn info() -> impl Strategy<Value = Info> {
    let s = || prop::option::weighted(0.5, "[A-Za-z0-9 ()\\\\,.-]{0,24}");
    (s(), s(), s(), s(), s()).prop_map(|(title, author, subject, keywords, creator)| Info { title, author, subject, keywords, creator })
}

pub fn prog() -> impl Strategy<Value = Prog> {
    (prop::collection::vec(page_prog(), 1..5), info()).prop_map(|(pages, info)| Prog { pages, info })
}

/// Documents with many small pages: enough non-stream objects (page dictionaries) for the writer to fill more than
/// one object stream (it starts a new one every 100 members), which `prog()`'s 1–4 pages never reach.
pub fn prog_many() -> impl Strategy<Value = Prog> {
    fn page() -> impl Strategy<Value = PageProg> {
        (prop::sample::select(vec![(595.0, 842.0), (612.0, 792.0), (200.0, 100.0)]), prop::sample::select(vec![0, 0, 90]), prop::collection::vec((0u8..12, coord(), coord(), ascii_text()).prop_map(|(font, x, y, text)| Call::Text { font, size: 12.0, x, y, text }), 0..2))
            .prop_map(|((w, h), rotation, calls)| PageProg { w, h, rotation, images: vec![], calls, annots: vec![] })
    }
    // sizes around the multiples of the object-stream capacity and in between
    let n = prop_oneof![2 => 90usize..130, 2 => 190usize..230, 1 => 40usize..320];
    (n.prop_flat_map(|n| prop::collection::vec(page(), n..=n)), info()).prop_map(|(pages, info)| Prog { pages, info })
}

/// object-stream configurations only
pub fn cfg_objstm() -> impl Strategy<Value = Cfg> {
    (any::<bool>(), 1u8..4).prop_map(|(compress, version)| Cfg { xref_streams: true, object_streams: true, compress, version })
}

/// like `cfg` but with object streams in ~3 % of the cases (for checks that open each file many times)
pub fn cfg_light() -> impl Strategy<Value = Cfg> {
    (prop_oneof![16 => Just((false, false)), 12 => Just((true, false)), 1 => Just((true, true))], any::<bool>(), 0u8..4).prop_map(|((x, o), compress, version)| Cfg { xref_streams: x, object_streams: o, compress, version: if x && version == 0 { 1 } else { version } })
}

pub fn cfg() -> impl Strategy<Value = Cfg> {
    // object-stream output has a 10^6-entry xref stream (the writer numbers object streams from
    // 1 000 000): reading one costs seconds, so that configuration is drawn for ~9 % of the cases
    (prop_oneof![6 => Just((false, false)), 4 => Just((true, false)), 1 => Just((true, true))], any::<bool>(), 0u8..4).prop_map(|((x, o), compress, version)| Cfg { xref_streams: x, object_streams: o, compress, version: if x && version == 0 { 1 } else { version } })
}
