#!/usr/bin/env python3
"""merge_findings.py <ws> <ID>: append known-findings lines of property ID from /scratch/<ws> (any JSON spacing)."""
import json, sys
ws, pid = sys.argv[1], sys.argv[2]
have = set()
for l in open('/verif/known_findings.jsonl'):
    l = l.strip()
    if l and not l.startswith('#'):
        d = json.loads(l); have.add((d['property'], d['signature'], d['status']))
out = open('/verif/known_findings.jsonl', 'a')
n = 0
for l in open(f'/scratch/{ws}/known_findings.jsonl'):
    l = l.strip()
    if not l or l.startswith('#'): continue
    d = json.loads(l)
    if d['property'] == pid and (d['property'], d['signature'], d['status']) not in have:
        out.write(json.dumps(d, ensure_ascii=False) + '\n'); n += 1
print('added', n)
