#!/bin/bash
# merge_ws.sh <ws> <ID> [extra src dirs/files relative to harness/src ...]
# copies props/<id>.rs (+ extras), replays/<ID>, known findings of <ID> from /scratch/<ws> into /verif
set -e
W=/scratch/$1; ID=$2; shift 2
id=$(echo $ID | tr 'A-Z' 'a-z')
cp "$W/harness/src/props/$id.rs" /verif/harness/src/props/
for x in "$@"; do
  mkdir -p "$(dirname /verif/harness/src/$x)"
  rsync -a "$W/harness/src/$x" "/verif/harness/src/$(dirname $x)/"
done
if [ -d "$W/replays/$ID" ]; then mkdir -p /verif/replays/$ID; rsync -a "$W/replays/$ID/" /verif/replays/$ID/; fi
grep "\"property\":\"$ID\"" "$W/known_findings.jsonl" | while read -r line; do
  grep -qF "$line" /verif/known_findings.jsonl || echo "$line" >> /verif/known_findings.jsonl
done
[ -d "$W/assets" ] && rsync -a "$W/assets/" /verif/assets/ || true
echo merged $ID
