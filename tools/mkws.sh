#!/bin/bash
# mkws.sh <name>: create an isolated workspace /scratch/<name> with a copy of the harness and of /repo
set -e
W=/scratch/$1
rm -rf "$W"; mkdir -p "$W"
rsync -a --exclude target --exclude .git /repo/ "$W/repo/"
rsync -a /verif/harness/ "$W/harness/"
sed -i "s#path = \"/repo/oxidize-pdf-core\"#path = \"$W/repo/oxidize-pdf-core\"#" "$W/harness/Cargo.toml"
sed -i "s#target-dir = \"../.build\"#target-dir = \"$W/tgt\"#" "$W/harness/.cargo/config.toml"
cp /verif/known_findings.jsonl "$W/" 2>/dev/null || true
mkdir -p "$W/replays" "$W/evidence"
echo "$W ready"
