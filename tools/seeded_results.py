#!/usr/bin/env python3
"""seeded_results.py <wave output files...>: parse tools/try_mutant.sh batch outputs
('### Cxx/n -> IDs', '<ID> exit=<code> signature: …') and print a markdown table.
Later files override earlier ones for the same (change, check) pair (re-runs after strengthening)."""
import re, sys, collections
res = collections.OrderedDict()
for f in sys.argv[1:]:
    cur = None
    for line in open(f, errors="replace"):
        m = re.match(r"### (C\d\d)/(\d) ->", line)
        if m:
            cur = f"{m.group(1)}-{m.group(2)}"
            res.setdefault(cur, collections.OrderedDict())
            continue
        m = re.match(r"(C\d\d) exit=(\d+)\s*(?:signature:\s*(.*))?", line)
        if m and cur:
            res[cur][m.group(1)] = (int(m.group(2)), (m.group(3) or "").strip())
        if line.startswith("APPLY-FAILED") and cur:
            res[cur]["apply"] = (4, line.strip())
print("| change | red (first signature) | green | other |")
print("|---|---|---|---|")
for ch, r in res.items():
    red = "; ".join(f"**{k}** `{v[1][:110]}`" for k, v in r.items() if v[0] == 1 or (v[0] == 143 and v[1]))
    green = ", ".join(k for k, v in r.items() if v[0] == 0)
    other = ", ".join(f"{k} exit={v[0]}" for k, v in r.items() if v[0] not in (0, 1) and not (v[0] == 143 and v[1]))
    print(f"| {ch} | {red} | {green} | {other} |")
