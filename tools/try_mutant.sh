#!/bin/bash
# try_mutant.sh <patch.diff> <ID> [ID ...]
# Applies a seeded change to /repo's working tree, runs the quick check of each listed property,
# prints "<ID> exit=<code> <first VIOLATION signature>" per property and always reverts /repo.
# Never commits anything. Refuses to run on a dirty /repo.
set -u
P=$(readlink -f "$1"); shift
if [ -n "$(git -C /repo status --porcelain)" ]; then echo "/repo is dirty; refusing"; exit 3; fi
trap 'git -C /repo checkout -- . ; git -C /repo clean -fdq -- oxidize-pdf-core/src oxidize-pdf-core/tests 2>/dev/null' EXIT
if ! git -C /repo apply --3way "$P" 2>/tmp/try_mutant.err && ! (git -C /repo checkout -- . && patch -d /repo -p1 --fuzz=3 -s < "$P" 2>>/tmp/try_mutant.err); then
  echo "APPLY-FAILED $(head -3 /tmp/try_mutant.err | tr '\n' ' ')"; exit 4
fi
git -C /repo reset -q 2>/dev/null
git -C /repo diff --stat | tail -1
OUT=/scratch/mutlogs; mkdir -p $OUT
for id in "$@"; do
  log=$OUT/$(basename "$(dirname "$P")")_$(basename "$(dirname "$(dirname "$P")")")_$id.log
  VERIF_NO_SHRINK=1 VERIF_OUT=/scratch/mutout /verif/check "$id" quick > "$log" 2>&1
  code=$?
  sig=$(grep -m1 "signature:" "$log" | cut -c1-220)
  echo "$id exit=$code $sig"
done
