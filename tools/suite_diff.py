#!/usr/bin/env python3
"""suite_diff.py <nextest log>: failing tests that are in BASELINE stable_pass."""
import json,re,sys
b=json.load(open('/root/.vp/BASELINE.json'))
stable=set(b['stable_pass'])
fails=set()
passed=0
for l in open(sys.argv[1]):
    m=re.match(r'\s+(FAIL|TIMEOUT|SIGABRT|SIGSEGV|LEAK-FAIL)\S*\s+\[.*?\]\s+\(\s*\d+/\d+\)\s+(\S+)\s+(\S+)',l)
    if m: fails.add(f"{m.group(2)}::{m.group(3)}")
    if re.match(r'\s+PASS',l): passed+=1
bad=sorted(f for f in fails if f in stable)
print("failed", len(fails), "of which in stable_pass:", len(bad))
for f in bad: print("  STABLE-FAIL", f)
