#!/bin/bash
# fuzz.sh <property> <seconds>   — coverage-guided part of a thorough tier (called by /verif/check <ID> thorough)
#   C01 -> target c01_read   (open + navigate a whole file; first byte = parse preset)
#   C08 -> target c08_filters (PdfStream::decode_with_limit; eight header bytes = filters, predictor parameters, limit)
#   C21 -> target c21_content (ContentParser::parse / parse_strict on raw bytes)
#   C26 -> target c26_cmap    (CMap::parse + lookups on raw bytes)
# Builds the cargo-fuzz target against /repo's working tree (libFuzzer, overflow checks and debug assertions on),
# seeds a fresh corpus from the property's own generator (`vp corpus`), runs 16 forked libFuzzer workers for
# <seconds>, and confirms every artifact through `./check <ID> --replay` before it counts (for C01 that is an
# isolated worker process). Exit 0: nothing found · 1: a confirmed violation (the VIOLATION line is printed by the
# replay) · 2: could not decide (build failure, or an artifact that does not reproduce).
set -u
ID="${1:?property}"; SECS="${2:-600}"
case "$ID" in
  C01) TARGET=c01_read; MAXLEN=262145; TMO=25 ;;
  C08) TARGET=c08_filters; MAXLEN=65544; TMO=20 ;;
  C21) TARGET=c21_content; MAXLEN=65536; TMO=20 ;;
  C26) TARGET=c26_cmap; MAXLEN=65536; TMO=20 ;;
  *) echo "fuzz.sh: no fuzz target for $ID" >&2; exit 2 ;;
esac
HERE="$(cd "$(dirname "$0")/.." && pwd)"
export CARGO_NET_OFFLINE=true
SEED="${VERIF_SEED:-0}"
OUT="${VERIF_OUT:-$HERE}"
WORK="$HERE/.fuzz-work/$ID"
rm -rf "$WORK"; mkdir -p "$WORK/corpus" "$WORK/artifacts"
if ! (cd "$HERE/fuzz" && cargo +nightly fuzz build --fuzz-dir . "$TARGET" >"$HERE/.build-fuzz.log" 2>&1); then
  tail -20 "$HERE/.build-fuzz.log" >&2
  echo "fuzz.sh: build failed (exit 2)" >&2
  exit 2
fi
BIN="$(ls "$HERE"/.build-fuzz/*/release/"$TARGET" | head -1)"
VERIF_SEED="$SEED" "$HERE/.build/debug/vp" corpus "$WORK/corpus" 400 "$ID" >/dev/null || exit 2
NSEED=$(ls "$WORK/corpus" | wc -l)
# libFuzzer: -seed=0 means random, so shift by one
(cd "$WORK" && "$BIN" corpus -fork=16 -ignore_crashes=0 -max_total_time="$SECS" -timeout=$TMO -rss_limit_mb=4096 \
   -malloc_limit_mb=4096 -max_len=$MAXLEN -len_control=0 -detect_leaks=0 -seed=$((SEED + 1)) \
   -artifact_prefix="$WORK/artifacts/" -print_final_stats=1 >"$WORK/fuzz.log" 2>&1)
STATS=$(grep -E "^#[0-9]+: cov:" "$WORK/fuzz.log" | tail -1)
EXECS=$(echo "$STATS" | sed -nE 's/^#([0-9]+):.*/\1/p'); COV=$(echo "$STATS" | sed -nE 's/.*cov: ([0-9]+).*/\1/p'); FT=$(echo "$STATS" | sed -nE 's/.*ft: ([0-9]+).*/\1/p')
NCORP=$(ls "$WORK/corpus" | wc -l)
rc=0
NART=0
for a in "$WORK"/artifacts/*; do
  [ -f "$a" ] || continue
  NART=$((NART + 1))
  R="$OUT/replays/new/${ID}_fuzz_$(basename "$a").json"
  mkdir -p "$(dirname "$R")"
  python3 - "$ID" "$a" "$R" <<'EOF'
import json, sys
pid, src, dst = sys.argv[1:4]
b = open(src, 'rb').read()
name = src.split('/')[-1]
if pid == "C01":
    sub, case = "inputs", {"seed": {"Random": list(b[1:])}, "muts": [], "preset": (b[0] % 5) if b else 1}
elif pid == "C08":
    # the header layout of fuzz/fuzz_targets/c08_filters.rs
    F = ["FlateDecode", "LZWDecode", "ASCIIHexDecode", "ASCII85Decode", "RunLengthDecode", "Crypt"]
    P = [0, 1, 2, 10, 11, 12, 13, 14, 15]; C = [1, 2, 3, 4, 0, 255]; B = [8, 1, 2, 4, 16, 3]
    L = [0, 1, 2, 3, 16, 255, 256, 4096, 65536, 1 << 20, 1 << 32, (1 << 64) - 1]
    h, body = b[:8], b[8:]
    flt = {"Arr": [{"Name": F[h[0] % 6]}, {"Name": F[(h[0] // 6) % 6]}]} if h[0] >= 128 else {"Name": F[h[0] % 6]}
    parms = None
    if P[h[1] % 9] != 0:
        d = [["Predictor", {"Int": P[h[1] % 9]}], ["Colors", {"Int": C[h[2] % 6]}], ["BitsPerComponent", {"Int": B[h[3] % 6]}], ["Columns", {"Int": ((h[4] << 8) | h[5]) % 600}]]
        if h[1] & 0x80:
            d.append(["EarlyChange", {"Int": 0}])
        parms = {"Dict": d}
    limit = h[7] * 4 if h[6] >= 128 else L[h[6] % 12]
    sub, case = "arbitrary", {"data": {"Bytes": list(body)}, "filter": flt, "parms": parms, "limit": limit}
elif pid == "C21":
    sub, case = "bytes", {"class": "libfuzzer", "bytes": list(b)}
else:  # C26: the harness carries CMap bytes as a Latin-1 string
    sub, case = "robust", {"text": b.decode("latin-1"), "origin": "libfuzzer"}
json.dump({"property": pid, "sub_check": sub, "signature": "", "origin": "libFuzzer artifact " + name, "case": case}, open(dst, "w"))
EOF
  "$HERE/check" "$ID" --replay "$R"
  r=$?
  if [ $r -eq 1 ]; then rc=1
  elif [ $rc -eq 0 ]; then
    echo "fuzz.sh: artifact $(basename "$a") did not reproduce through the harness (kept as $R); inconclusive" >&2
    rc=2
  fi
done
python3 - "$OUT/evidence/$ID.json" "$TARGET" "$SECS" "${EXECS:-0}" "${COV:-0}" "${FT:-0}" "$NSEED" "$NCORP" "$NART" <<'EOF'
import json, sys
p, target = sys.argv[1], sys.argv[2]
secs, execs, cov, ft, nseed, ncorp, nart = [int(x or 0) for x in sys.argv[3:]]
try:
    d = json.load(open(p))
except Exception:
    sys.exit(0)
d["coverage"]["fuzz"] = {"engine": f"cargo-fuzz / libFuzzer, 16 forks, target fuzz/fuzz_targets/{target}.rs (oracle inside the target)",
    "seconds": secs, "executions": execs, "edge_coverage": cov, "features": ft, "seed_corpus_files": nseed, "final_corpus_files": ncorp, "artifacts": nart}
json.dump(d, open(p, "w"), indent=1, ensure_ascii=False)
EOF
echo "[$ID-fuzz] target $TARGET, ${SECS}s, ${EXECS:-0} executions, cov ${COV:-0}, ft ${FT:-0}, corpus $NSEED -> $NCORP, artifacts $NART"
exit $rc
