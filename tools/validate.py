#!/usr/bin/env python3-vt
"""Validate MANIFEST.json and every evidence file against the schemas in /root/.vp."""
import json, sys, glob, jsonschema
ok = True
def check(path, schema):
    global ok
    try:
        jsonschema.validate(json.load(open(path)), json.load(open(schema)))
        print("ok  ", path)
    except Exception as e:
        ok = False
        print("FAIL", path, str(e)[:300])
check('/verif/MANIFEST.json', '/root/.vp/MANIFEST.schema.json')
for f in sorted(glob.glob('/verif/evidence/*.json')):
    check(f, '/root/.vp/EVIDENCE.schema.json')
m = json.load(open('/verif/MANIFEST.json'))
ids = [json.loads(l)['id'] for l in open('/verif/properties.jsonl')]
claimed = [c['property_id'] for c in m['checks']]
na = [c['property_id'] for c in m.get('not_applicable', [])]
for i in ids:
    if (i in claimed) == (i in na):
        ok = False
        print("FAIL", i, "must be exactly one of claimed / not_applicable")
sys.exit(0 if ok else 1)
