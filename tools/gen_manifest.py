#!/usr/bin/env python3
"""Regenerates /verif/MANIFEST.json.

Sources: tools/claims.json (hand-written entries), `vp describe` (rule / assumptions of every
registered check, used for properties without a hand-written entry), tools/techniques.json
(one-line technique per property), tools/not_applicable.json (reasons for properties not claimed).
"""
import json, subprocess, os

ALL = [json.loads(l) for l in open('/verif/properties.jsonl')]
CLAIMED = json.load(open('/verif/tools/claims.json'))
TECH = json.load(open('/verif/tools/techniques.json'))
NA = json.load(open('/verif/tools/not_applicable.json')) if os.path.exists('/verif/tools/not_applicable.json') else {}

desc = {}
try:
    out = subprocess.run(['/verif/.build/debug/vp', 'describe'], capture_output=True, text=True).stdout
    desc = {d['id']: d for d in json.loads(out)}
except Exception as e:
    print('describe failed', e)

PENDING_REASON = "check not built yet in this session (implementation in progress, see DESIGN.md §10); not claimed until its check is silent on the unchanged tree"

def repo_commits(prefix):
    out = subprocess.run(['git', '-C', '/repo', 'log', '--format=%h %s'], capture_output=True, text=True).stdout.splitlines()
    return [l.split()[0] for l in out if l.split(' ', 1)[1].startswith(prefix)]

checks = []
claimed_ids = []
for p in ALL:
    i = p["id"]
    if i in NA:
        continue
    if i in CLAIMED:
        c = CLAIMED[i]
    elif i in desc and i in TECH:
        d = desc[i]
        c = {
            "technique": TECH[i],
            "category": d["level"],
            "text": "Generated-input search with an explicit oracle; what is generated, what counts as non-trivial and distinct: " + d["rule"],
            "note": "Assumed / trusted: " + " | ".join(d["assumptions"]) + " | trusted base: " + ", ".join(d["trusted_base"]),
            "ref": f"§6 {i}",
        }
    else:
        continue
    claimed_ids.append(i)
    checks.append({
        "property_id": i,
        "quick_cmd": f"./check {i} quick",
        "thorough_cmd": f"./check {i} thorough",
        "evidence_file": f"/verif/evidence/{i}.json",
        "replay_cmd_template": f"./check {i} --replay {{path}}",
        "engine": "vp",
        "level_claimed": {"category": c["category"], "text": c["text"], "design_ref": c["ref"]},
        "level_note": c["note"],
        "technique": c["technique"],
    })

manifest = {
    "version": 1,
    "setup_cmd": "./check --build",
    "hooks": {
        "guard": "--cfg bzsanti_oxidizepdf_verif",
        "enable": "harness/.cargo/config.toml sets rustflags = [\"--cfg\", \"bzsanti_oxidizepdf_verif\"] for the harness build, which compiles /repo/oxidize-pdf-core as a path dependency from the current working tree",
        "baseline_off_cmd": "cd /repo && cargo nextest run --workspace --no-fail-fast --tool-config-file pb:/w/lib/nextest.toml --profile pb --test-threads 8 --offline",
        "source_commits": repo_commits("verif hook"),
        "add_only": True,
    },
    "engines": [
        {"name": "vp-shuttle", "path": "/verif/harness-shuttle", "serves_properties": ["C22", "C29"], "kind_free_text": "Rust binaries built by ./check C22|C29 (vp-shuttle, vp-shuttle-c29): the library's batch sources and memory/cache.rs rebuilt from /repo's working tree on shuttle primitives (build.rs substitution, no change in /repo); random, PCT and bounded depth-first schedules; driven and judged by vp (sub-check shuttle-schedules)"},
        {"name": "vp-fuzz", "path": "/verif/fuzz", "serves_properties": ["C01", "C08", "C21", "C26"], "kind_free_text": "cargo-fuzz project (libFuzzer targets c01_read, c08_filters, c21_content, c26_cmap with the oracle inside the target); run by tools/fuzz.sh as the second stage of those properties' thorough tier; artifacts are confirmed through ./check <ID> --replay"},
        {"name": "vp", "path": "/verif/harness", "serves_properties": claimed_ids, "kind_free_text": "Rust binary: seeded proptest TestRunner shards + exhaustive enumerators + process-isolated workers + spec-derived reference implementations (refpdf, refcrypto, refcodec, reffont, reftab, refpng); writes evidence and replay files"},
    ],
    "checks": checks,
    "notes": "Exit codes: 0 held (KNOWN-FINDING lines for listed findings), 1 VIOLATION, 2 could not decide (build failure / harness problem). Known findings: /verif/known_findings.jsonl. Committed replays under /verif/replays/<ID>/ run first in every invocation. Repairs of genuine defects are the 'fix:' commits in /repo: " + ", ".join(repo_commits("fix:")),
    "not_applicable": [{"property_id": p["id"], "reason": NA.get(p["id"], PENDING_REASON)} for p in ALL if p["id"] not in claimed_ids],
}
json.dump(manifest, open('/verif/MANIFEST.json', 'w'), indent=1, ensure_ascii=False)
print("claimed", len(checks), "not_applicable", len(manifest["not_applicable"]))
