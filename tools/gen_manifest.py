#!/usr/bin/env python3
"""Regenerates /verif/MANIFEST.json from the table below (kept in one place so that it stays valid)."""
import json

ALL = [json.loads(l) for l in open('/verif/properties.jsonl')]

# id -> (technique, level text, level note, design ref)
CLAIMED = {
    "C27": (
        "proptest generated range sets vs a spec-transcribed label formatter; written file read by an independent strict reader",
        "Generated search (20 000 range-set/index cases + 1 500 written files per quick run) against a reference formatter of §12.4.2 and against the /PageLabels tree as read by the harness's own strict PDF reader. Exploration, not proof: holds on the generated classes listed in the evidence.",
        "Trusted: the 40-line reference formatter (letters A–Z, AA–ZZ…; roman ≤ 3999), refpdf strict reader and PDFDocEncoding/UTF-16 text-string decoder. Roman values > 3999 and labels whose number exceeds u32 are outside the asserted domain.",
        "§6 C27",
    ),
    "C29": (
        "small-scope exhaustive model-based testing (all histories ≤ 6/7 ops, capacities 0–4) + random long histories + real-thread linearizability checking",
        "Every history up to the length bound over an 11-operation alphabet and capacities 0–4 is executed on LruCache (and a 1/7 sample on ObjectCache) and compared step by step and by a residency probe with an abstract LRU list: exhaustive within the bound. Longer random histories (6 keys, capacity ≤ 8) and concurrent histories on OS threads checked for linearizability extend it by sampling.",
        "Trusted: 30-line LRU model, Wing–Gong linearizability search. The schedule quantifier is only sampled (OS scheduler with generated yield points); no controlled-scheduler hook is used, so rare interleavings may be missed.",
        "§6 C29",
    ),
}

PENDING_REASON = "check not built yet in this session (implementation in progress, see DESIGN.md §10); not claimed until its check is silent on the unchanged tree"

checks = []
for p in ALL:
    i = p["id"]
    if i not in CLAIMED:
        continue
    tech, text, note, ref = CLAIMED[i]
    checks.append({
        "property_id": i,
        "quick_cmd": f"./check {i} quick",
        "thorough_cmd": f"./check {i} thorough",
        "evidence_file": f"/verif/evidence/{i}.json",
        "replay_cmd_template": f"./check {i} --replay {{path}}",
        "engine": "vp",
        "level_claimed": {"category": "exploration", "text": text, "design_ref": ref},
        "level_note": note,
        "technique": tech,
    })

manifest = {
    "version": 1,
    "setup_cmd": "./check --build",
    "hooks": {
        "guard": "--cfg bzsanti_oxidizepdf_verif",
        "enable": "harness/.cargo/config.toml sets rustflags = [\"--cfg\", \"bzsanti_oxidizepdf_verif\"] for the harness build, which compiles /repo/oxidize-pdf-core as a path dependency from the current working tree",
        "baseline_off_cmd": "cd /repo && cargo nextest run --workspace --no-fail-fast --tool-config-file pb:/w/lib/nextest.toml --profile pb --test-threads 8 --offline",
        "source_commits": [],
        "add_only": True,
    },
    "engines": [
        {"name": "vp", "path": "/verif/harness", "serves_properties": sorted(CLAIMED), "kind_free_text": "Rust binary: seeded proptest TestRunner shards + exhaustive enumerators + spec-derived reference implementations (refpdf, refcrypto, refcodec, reffont, reftab); writes evidence and replay files"},
    ],
    "checks": checks,
    "notes": "Exit codes: 0 held (KNOWN-FINDING lines for listed findings), 1 VIOLATION, 2 could not decide (build failure / harness problem). Known findings: /verif/known_findings.jsonl. Committed replays under /verif/replays/<ID>/ run first in every invocation.",
    "not_applicable": [{"property_id": p["id"], "reason": PENDING_REASON} for p in ALL if p["id"] not in CLAIMED],
}
json.dump(manifest, open('/verif/MANIFEST.json', 'w'), indent=1, ensure_ascii=False)
print("claimed", len(checks), "not_applicable", len(manifest["not_applicable"]))
