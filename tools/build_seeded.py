#!/usr/bin/env python3
"""build_seeded.py <mutant output root> <confirm outputs...> -- <wave outputs...>
Populates /verif/seeded/<Cxx-n>/ (patch.diff, demo.rs, README.md, meta.json) for every seeded change that was
confirmed here (demo fails with the change, passes without it, unit tests pass with it) and writes
/verif/seeded/RESULTS.md. Later wave files override earlier ones for the same (change, check) pair."""
import json, os, re, shutil, sys, collections

args = sys.argv[1:]
root = args[0]
sep = args.index("--")
confirm_files, wave_files = args[1:sep], args[sep + 1:]

confirm = {}
for f in confirm_files:
    for line in open(f, errors="replace"):
        line = line.strip()
        if line.startswith("{"):
            try:
                d = json.loads(line)
                confirm[d["m"].replace("/", "-")] = d
            except Exception:
                pass

res = collections.OrderedDict()
trials = {}
for f in wave_files:
    cur = None
    for line in open(f, errors="replace"):
        m = re.match(r"### (C\d\d)/(\d) ->", line)
        if m:
            cur = f"{m.group(1)}-{m.group(2)}"
            res.setdefault(cur, collections.OrderedDict())
            continue
        m = re.match(r"(C\d\d) exit=(\d+)\s*(?:signature:\s*(.*))?", line)
        if m and cur:
            res[cur][m.group(1)] = (int(m.group(2)), (m.group(3) or "").strip(), os.path.basename(f))
            trials.setdefault((cur, m.group(1)), []).append((int(m.group(2)), (m.group(3) or "").strip(), os.path.basename(f)))

NOTES = json.load(open("/verif/seeded/notes.json")) if os.path.exists("/verif/seeded/notes.json") else {}

def needs_of(readme):
    m = re.search(r"^#+ *(What it needs[^\n]*|Needs[^\n]*|What it needs in order to manifest[^\n]*)\n(.*?)(?=^#+ |\Z)", readme, re.S | re.M | re.I)
    if m:
        return re.sub(r"\s+", " ", m.group(2)).strip()[:900]
    m = re.search(r"(needs?( to manifest)?:?\*?\*?)(.*?)(\n\n|\Z)", readme, re.S | re.I)
    return re.sub(r"\s+", " ", m.group(3)).strip()[:900] if m else ""

os.makedirs("/verif/seeded", exist_ok=True)
rows = []
for ch in sorted(set(list(res.keys()) + list(confirm.keys()))):
    prop, n = ch.split("-")
    src = os.path.join(root, prop, n)
    readme = open(os.path.join(src, "README.md"), errors="replace").read() if os.path.exists(os.path.join(src, "README.md")) else ""
    c = confirm.get(ch)
    confirmed = bool(c and c.get("apply") and c["demo_with_exit"] != 0 and c["demo_without_exit"] == 0 and c["lib_exit"] == 0)
    r = res.get(ch, {})
    red = {k: v for k, v in r.items() if v[0] == 1 or (v[0] == 143 and v[1])}
    green = [k for k, v in r.items() if v[0] == 0]
    ran = []
    if c:
        ran.append(f"demo with the change: {c.get('demo_with','')} (exit {c.get('demo_with_exit')}); unit tests (cargo test --lib) with the change: {c.get('lib','')} (exit {c.get('lib_exit')}); demo without the change: {c.get('demo_without','')} (exit {c.get('demo_without_exit')}) — in a scratch worktree of /repo HEAD")
    for k in r:
        for v in trials.get((ch, k), []):
            ran.append(f"git -C /repo apply patch.diff; ./check {k} quick -> exit {v[0]}{' ' + v[1] if v[1] else ''} [{v[2]}]; git -C /repo checkout -- .")
    if confirmed:
        dst = f"/verif/seeded/{ch}"
        os.makedirs(dst, exist_ok=True)
        for f in ("patch.diff", "demo.rs", "README.md"):
            if os.path.exists(os.path.join(src, f)):
                shutil.copy(os.path.join(src, f), os.path.join(dst, f))
        meta = {"property": prop, "needs_to_manifest": needs_of(readme), "confirmed_here": True, "ran": ran,
                "caught_by": sorted(red.keys()), "not_caught_by": green, "note": NOTES.get(ch, ""),
                "how_to_apply": "git -C /repo apply /verif/seeded/%s/patch.diff ; run checks ; git -C /repo checkout -- .   (never commit)" % ch}
        json.dump(meta, open(os.path.join(dst, "meta.json"), "w"), indent=1, ensure_ascii=False)
    rows.append((ch, confirmed, red, green, NOTES.get(ch, "")))

with open("/verif/seeded/RESULTS.md", "w") as out:
    out.write("# Seeded changes and the checks that catch them\n\n")
    out.write("Every change was written by a sub-agent that saw only the property text and its own worktree. `confirmed` = demonstrated here: the demo test fails with the change and passes without it, and `cargo test --lib` (6 698 unit tests) passes with it. `red` = quick checks that reported a VIOLATION with the change applied to /repo's working tree (first signature shown); `green` = quick checks that were also run and stayed silent (mostly checks of neighbouring properties, run to see how far a change radiates).\n\n")
    out.write("| change | confirmed | red | green | note |\n|---|---|---|---|---|\n")
    for ch, ok, red, green, note in rows:
        r = "; ".join(f"**{k}** `{v[1][:100]}`" for k, v in red.items())
        out.write(f"| {ch} | {'yes' if ok else 'no'} | {r} | {', '.join(green)} | {note} |\n")
    own = sum(1 for ch, ok, red, green, note in rows if ch.split('-')[0] in red)
    out.write(f"\n{len(rows)} changes; {own} are caught by the check of the property they were written against.\n")
print("rows", len(rows), "confirmed", sum(1 for r in rows if r[1]))
