#!/usr/bin/env python3
"""keep_mutant.py <src dir with patch.diff demo.rs README.md> <seeded id> <property> <needs> <ran...>
Stores a confirmed seeded change under /verif/seeded/<seeded id>/ with meta.json.
`ran` arguments are free-text lines describing what was run and what it showed."""
import json, shutil, sys, os
src, sid, prop, needs = sys.argv[1:5]
ran = sys.argv[5:]
dst = f"/verif/seeded/{sid}"
os.makedirs(dst, exist_ok=True)
for f in ("patch.diff", "demo.rs", "README.md"):
    if os.path.exists(os.path.join(src, f)):
        shutil.copy(os.path.join(src, f), os.path.join(dst, f))
meta = {"property": prop, "needs_to_manifest": needs, "ran": ran,
        "apply": "git -C /repo apply <patch.diff>; run checks; git -C /repo checkout -- .",
        "never_commit_to_repo": True}
json.dump(meta, open(os.path.join(dst, "meta.json"), "w"), indent=1, ensure_ascii=False)
print("kept", dst)
